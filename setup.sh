#!/bin/bash
# offline setup: verify that the tooling interpreter, z3 and cvc5 are usable; create output directories.
set -e
cd "$(dirname "$0")"
mkdir -p evidence replays
if ! python3-vt -c "import z3; assert z3.get_version()[0] >= 4" 2>/dev/null; then
  echo "python3-vt lacks z3; building /verif/.venv from the offline wheelhouse"
  python3 -m venv .venv
  .venv/bin/pip install --no-index --find-links /opt/veriftools/wheels z3-solver
fi
test -x /usr/bin/cvc5 || echo "warning: /usr/bin/cvc5 missing; solver 'unknown' results stay undecided"
python3-vt -B -c "import sys; sys.path.insert(0,'/repo'); import pyscsi; print('pyscsi from', pyscsi.__file__)"
echo setup ok

#!/bin/bash
# tools/try_patch.sh <patch> <prop>   run a check against a scratch copy with a patch
cd /verif
tmp=$(mktemp -d /var/tmp/pyscsi-one.XXXXXX); mkdir -p $tmp/repo; (cd /repo && git archive HEAD) | tar -x -C $tmp/repo
(cd $tmp/repo && patch -p1 -s < $1) || { echo "patch failed"; rm -rf $tmp; exit 9; }
PYSCSI_REPO=$tmp/repo VERIF_OUT_DIR=$tmp/out ./check $2 --tier quick > $tmp/log.txt 2>&1; echo "exit=$?"
grep -E "^(VIOLATION|  obligation|UNDECIDED|CHECKER-ERROR)" $tmp/log.txt | cut -c1-300 | head -${SHOW:-6}; tail -1 $tmp/log.txt | cut -c1-200
rm -rf $tmp

#!/usr/bin/env python3
# regenerates /verif/MANIFEST.json from the table below (kept in one place so that claimed / not_applicable stay in sync)
import json
import os

VERIF = os.path.dirname(os.path.dirname(os.path.abspath(__file__)))
TECH = "contract-based deductive verification: VCs generated from the real source by pyvc, discharged by z3 (cvc5 for unknowns), counter-models replayed natively"
TRUST = "trusted: the pyvc interpreter (cross-checked per path against CPython), the hand-written spec tables under spec/, z3/cvc5; "

CHECKS = {
    "C01": dict(cat="other", ref="6 C01",
                text="for every command class found in the package, on every command set that offers it, all argument values of the standard's field widths at once: CDB length, operation code, service action, every field decoded by the standard's layout equals the argument, all reserved bits zero; one z3 obligation per clause and path",
                note="claimed as 'other' only because one known finding (EXCHANGE MEDIUM INV1/INV2, pinned by an existing test) leaves two obligations undischarged; " + TRUST + "arguments quantified over the standard's field widths; structured data-out commands (MODE SELECT, PR OUT, EXTENDED COPY) get their CDB clauses from the C05 units; EXCHANGE MEDIUM INV1/INV2 is a recorded known finding"),
    "C03": dict(cat="proof", ref="6 C03",
                text="same symbolic constructor runs as C01 with the data-phase clauses: len(datain) equals the allocation length decoded from the CDB / tl*blocksize / the SAT transfer rule over all t_length, byte_block, t_type, t_dir; dataout is the caller's object or empty; both are byte buffers",
                note=TRUST + "the transports' use of the buffers is covered by the C07/C13 units"),
    "C02": dict(cat="proof", ref="6 C02",
                text="for every command class: decode(build(args)) returns every constructor argument under exactly one key at the full width the standard gives the field (all fields symbolic at once), encode(decode(cdb)) reproduces the bytes, and encode/decode are inverse on every byte string of the CDB's length whose undefined bits are zero; z3 per clause",
                note=TRUST + "the library's key names are discovered by probing the real code, not read from its tables; for the SAT LBA the dictionary carries the scattered wire field (compared as such); non-interference between fields follows from the joint quantification"),
    "C04": dict(cat="other", ref="6 C04",
                text="mixed, hence 'other': for every response format the library parses, the spec encoder (standard's positions, spec/data_formats.py) builds the response from symbolic field values, the real parser is interpreted on it and every key must come back with the encoded value. Fixed formats (standard INQUIRY, VPD B0/B1/B2/B3/86/89, READ CAPACITY 10/16, PR IN READ RESERVATION / REPORT CAPABILITIES, READ DISC INFORMATION x3) are complete proofs over all field values, with and without trailing buffer space. List formats (VPD 00/80/83 with every designator kind and NAA format, MODE SENSE 6/10 with every page format, GET LBA STATUS, REPORT LUNS, REPORT PRIORITY, REPORT TARGET PORT GROUPS, READ ELEMENT STATUS, PR IN READ KEYS / READ FULL STATUS, TransportIDs, READ CD sector layouts) are proved for all field values over enumerated shapes (descriptor counts 0..3, thorough 0..8) -> bounded in the count; lengths honoured: nothing beyond the reported length may be returned",
                note=TRUST + "two recorded known findings (MODE SENSE decoders ignore MODE DATA LENGTH and return one page; pinned by existing tests); iSCSI names and READ CD layouts are representatives; ATA signature / IDENTIFY configuration words, SOP TransportID and the PCIe routing designator are left unchecked (standard text not certain)"),
    "C05": dict(cat="other", ref="6 C05",
                text="the real constructors / marshallers of MODE SELECT 6/10 (every page format, one and two pages), PERSISTENT RESERVE OUT (basic list for every service action, SPEC_I_PT list with 0..3 TransportIDs of every protocol kind, REGISTER AND MOVE with and without TransportID), TransportIDs (iSCSI names of every length 0..40 and boundary lengths, thorough 0..223) and EXTENDED COPY LID1 / LID4 (0..2 identification-descriptor CSCDs with NAA/EUI designators and every device type spelling, 0..3 segment descriptors of every implemented type code given by code, name or description, inline data) are interpreted with all numeric values symbolic; the data-out buffer must equal the spec encoding byte for byte, every embedded length field is computed by the spec from the bytes that follow, and the CDB's PARAMETER LIST LENGTH equals len(dataout); refusals (foreign keys, unknown codes, non-zero LU ID TYPE, inconsistent TransportID) raise ValueError",
                note=TRUST + "shapes (descriptor counts, kinds) are enumerated, hence 'other' rather than proof; iSCSI name contents are representatives"),
    "C06": dict(cat="other", ref="6 C06",
                text="for every structure with both directions (standard INQUIRY, VPD 80/83/86/B2/B3 incl. every designator kind, mode parameter lists 6/10, READ CAPACITY 10/16, GET LBA STATUS, REPORT LUNS, REPORT TARGET PORT GROUPS, READ ELEMENT STATUS, TransportIDs) over the shapes of C04 and all field values: unmarshall(marshall(d)) == d with both real functions back to back, marshall(unmarshall(b)) == b for the canonical response b built by the spec encoder, and read-modify-write of every field of every supported mode page changes exactly that field's bits",
                note=TRUST + "shapes enumerated (bounded descriptor counts), hence 'other'; canonical means: reserved bits zero, PROTOCOL IDENTIFIER present only when valid, element descriptors in the marshaller's own length; multi-page mode parameter lists are excluded (recorded C04 finding)"),
    "C07": dict(cat="proof", ref="6 C07",
                text="SCSIDevice.execute and ISCSIDevice.execute interpreted over stub bindings whose status byte (all 256 values) and sense buffer contents are symbolic, raw-sense capture on and off: normal return only for GOOD (or CHECK CONDITION reported through the raw sense attached on request), CHECK CONDITION raises the device's CheckCondition carrying key/ASC/ASCQ of exactly these bytes, each named status raises the error of that name (iSCSI), everything else raises; the facade half (errors propagate, nothing decoded) is discharged on the C13 units",
                note=TRUST + "assumed contracts of sgio.execute / iscsi.Task / Context.command (listed in the evidence); on SG_IO the library never sees a status byte, so 'named error' applies to iSCSI only"),
    "C08": dict(cat="proof", ref="6 C08",
                text="SCSICheckCondition(sense), str() and print_data interpreted for every buffer length 1..32 and 252 (1..252 thorough) with every byte symbolic: never raises (every dictionary look-up with a symbolic key is an obligation 'key in table or guarded'), sense key / ASC / ASCQ equal the bytes at SPC's positions for fixed and descriptor, current and deferred formats; ground obligations for a reference sample of T10 texts",
                note=TRUST + "lengths are enumerated, contents are quantified; T10 texts checked on a reference sample of 18 codes x 4 formats"),
    "C09": dict(cat="proof", ref="6 C09",
                text="frame and ownership conditions instead of enumerating histories or schedules: (1) every constructor, codec and facade unit is re-run with automatic frame clauses on every path (all stores the interpreter performs go to objects created during the call; the net effect on every class and module of the package, compared deeply, is empty); (2) an AST scan of every function of the package finds no store into non-local state (global, Class.attr, setattr on shared objects, mutation of class/module containers or default arguments); (3) for ordered pairs of command classes (quick: each class against four partners, thorough: all pairs) and all argument values: building and using B between building and using A changes neither A's CDB nor what A's class decodes/encodes, and equal arguments give equal bytes; non-interference under every order and thread interleaving then follows from (1)+(2) (meta-theorem, argued on paper)",
                note=TRUST + "thread schedules are not enumerated; import-time initialisation precedes use; unshared objects are unaffected by other threads (CPython)"),
    "C10": dict(cat="proof", ref="6 C10",
                text="scsi_int_to_ba / scsi_ba_to_int for every size 0..16 (32 thorough) against division/modulo spec functions; encode_dict / decode_bits for every contiguous mask of 1..72 bits at every bit alignment (1..128 thorough) plus every mask in the repository, at a symbolic byte offset of an arbitrary buffer (z3 arrays, skolem index for the frame clause); blobs b/w/dw; order independence and decode(encode) on every layout table of the repository",
                note=TRUST + "the mask family is finite (stated); a proof parametric in the mask is not attempted; callers verified modularly use these contracts"),
    "C11": dict(cat="other", ref="6 C11",
                text="mixed, hence 'other': (1) proof part: a variant obligation at the head of every while loop of every decoder (found by AST scan on every run): from an over-approximated loop-head state (buffer of arbitrary length >= 1 and contents, carried-in values arbitrary as computed by the real prefix, nested loops replaced by their summaries) one execution of the real body strictly shortens the buffer on every path -- unbounded in buffer length; inventory obligations: every while is in the stride schema, every for iterates over a finite sequence fixed before the loop, decoders do not recurse, every layout mask is positive; (2) bounded stand-in: every decoder on all buffers of length 8, 12, 20 (thorough 4..32) with symbolic bytes never exceeds the iteration bound; failing inputs are replayed natively under a line-event budget",
                note=TRUST + "the stride-loop schema lemma (variant on a natural number implies termination) is the textbook argument, not mechanised; the bounded part may be truncated by its time budget and says so in the evidence"),
    "C12": dict(cat="other", ref="6 C12",
                text="mixed, hence 'other': (1) array lemmas (read-after-write, preservation, WRITE SAME) over the abstract disk for every transfer length, discharged by z3; (2) end-to-end histories of 2..4 commands (WRITE 10/12/16, WRITE SAME 10/16 incl. NDOB, SYNCHRONIZE CACHE, READ 10/12/16, READ CAPACITY 10/16, INQUIRY) through the real facade and the real SCSIDevice / ISCSIDevice with the stub binding handing every command to an abstract conformant block target that decodes with the standard's layouts: LBAs (64 bit for the 16-byte forms), flag bits, payload bytes and the initial disk symbolic, transfer lengths 1..3 and block sizes 1,2 (thorough: 1,2,4,8) concrete -> bounded; (3) arbitrary lengths, block sizes and histories follow by induction from the per-call contracts of C01/C03/C13/C07",
                note=TRUST + "the conformant target is spec/block_target.py; bindings deliver CDB and buffers unmodified; part (2) is bounded in transfer length, block size and history length and is not counted as proof"),
    "C13": dict(cat="other", ref="6 C13",
                text="deductive, like the proof-level checks, but with one recorded known finding (EXCHANGE MEDIUM INV1/INV2), hence 'other'. Every facade method found on SCSI is interpreted over a recording device (assumed contract of device.execute: may rewrite datain, returns or raises) on every command set that offers the command and for every subset of optional arguments (quick: none / all / each single), all argument values symbolic: exactly one execute, whose command is the returned object with the opcode/service action of the attached set; every given or defaulted argument reaches the CDB at the standard's position; the device saw the very buffers on the command; the decoder runs once, after execute, on that buffer, with arguments the real decoder accepts; a failing device makes the facade raise the same error with nothing decoded",
                note=TRUST + "unmarshall_datain is replaced by an uninterpreted result (its own contract is C04); structured arguments (mode page, PR OUT list, EXTENDED COPY lists) use representative shapes here and are quantified in C05"),
    "C14": dict(cat="proof", ref="6 C14",
                text="one ground obligation per table entry (5 sets, 249 opcodes, every service action, 9 status names, all cross-set pairs) against spec/t10_opcodes.py, read from the live Enum/OpCode objects; SCSICommand.init_cdb verified for every integer opcode value (symbolic, 129-bit range)",
                note=TRUST + "T10 code list transcribed by hand; names unknown to the reference make the check undecided"),
    "C15": dict(cat="proof", ref="6 C15",
                text="per-call contracts of SCSIDevice.__init__/open/close/execute/_is_replugged/__enter__/__exit__, ISCSIDevice.close/__exit__ and SCSI.__exit__ over a ghost file system (path -> inode | absent) with an arbitrary environment step between open and execute (old and new inode symbolic, node possibly gone, close() possibly failing), detection on/off, read-only/read-write: a command only ever goes through an open handle on the node that currently exists, stale handles are closed exactly once, a vanished node is an error, the representation invariant is re-established on every exit; history quantifier by induction over calls and environment steps",
                note=TRUST + "assumed contracts of open / os.stat / file.close; environment steps happen between library calls"),
    "C16": dict(cat="proof", ref="6 C16",
                text="SCSI.__init__ and SCSI.__call__ interpreted with the real inquiry()/Inquiry.unmarshall_datain over a device whose 96 INQUIRY bytes are symbolic (all 32 device types x 8 qualifiers, everything else arbitrary), for every initial command set of the first and of a second device: exactly one standard INQUIRY per attach built with the device's current table, devicetype == byte0 & 1Fh, types 00h/04h/07h -> SBC, 01h -> SSC, 05h -> MMC, 08h -> SMC, every selectable set offers INQUIRY / TEST UNIT READY / REPORT LUNS with T10 values; re-attach selects from the second device's answer only and leaves the first device untouched",
                note=TRUST + "assumed contract of device.execute (writes the given INQUIRY data into cmd.datain)"),
    "C17": dict(cat="proof", ref="6 C17",
                text="exceptional postconditions on the constructor runs: MissingBlocksizeException iff the block size is needed and zero (READ/WRITE/WRITE SAME/ATA), OpcodeException iff the opcode has no fixed CDB length, for all other argument values",
                note=TRUST + "refusals inside PR IN / EXTENDED COPY / TransportID marshalling are added with the C05 units"),
}
REASON_PENDING = "check not built yet (work in progress, see DESIGN.md section 6)"


def main():
    props = [json.loads(l)["id"] for l in open(os.path.join(VERIF, "properties.jsonl"))]
    checks = []
    for p in props:
        if p not in CHECKS:
            continue
        c = CHECKS[p]
        checks.append(dict(
            property_id=p, quick_cmd="./check %s --tier quick" % p, thorough_cmd="./check %s --tier thorough" % p,
            evidence_file="evidence/%s.json" % p, replay_cmd_template="./check %s --replay {path}" % p, engine="pyvc+z3/cvc5",
            level_claimed=dict(category=c["cat"], text=c["text"], design_ref=c["ref"]), level_note=c["note"],
            technique=c.get("tech", TECH)))
    na = [dict(property_id=p, reason=NOT_APPLICABLE.get(p, REASON_PENDING)) for p in props if p not in CHECKS]
    m = dict(
        version=1, setup_cmd="./setup.sh",
        hooks=dict(guard="PYSCSI_VERIF",
                   enable="no hook is needed: the checks interpret the real source of /repo's working tree and substitute the external bindings through sys.modules from /verif/spec/stubs",
                   baseline_off_cmd="cd /repo && /venv/bin/python -m pytest -ra -q -p no:cacheprovider --timeout=900 --continue-on-collection-errors",
                   source_commits=[], add_only=True),
        engines=[dict(name="pyvc+z3/cvc5", path="pyvc/", serves_properties=sorted(CHECKS),
                      kind_free_text="contract-based deductive verification: a VC generator (AST-walking symbolic interpreter over the real source, re-read on every run), sidecar contracts in contracts/, independent spec in spec/, z3 + cvc5 back ends, native replay of every counter-model")],
        checks=checks, not_applicable=na,
        notes="Exit codes of every check: 0 held (KNOWN-FINDING lines allowed), 1 violation (VIOLATION line, replayed natively), 2 undecided, 3 checker error. known_findings.txt lists recorded findings and repaired defects.")
    json.dump(m, open(os.path.join(VERIF, "MANIFEST.json"), "w"), indent=1)
    print("MANIFEST.json: %d checks, %d not_applicable" % (len(checks), len(na)))


NOT_APPLICABLE = {}
CHECKS["C18"] = dict(cat="other", ref="6 C18",
    text="mixed, hence 'other': (a) proof: the filter predicate of Enum.keys is extracted from the real AST and z3 shows that every user entry (name without leading __, value neither callable nor bound method) is listed and every name class creation adds is not -- for any number of entries; (b) bounded: on real Enum objects whose values are four symbolic integers (any values, possibly equal), every operation sequence of length <= 2 (thorough 3) over add / remove / reverse lookup on a three-name pool, initial mappings of 0..3 entries in dict and keyword form, is compared step by step with an ordered-dictionary model (names in order, values, reverse lookup, KeyError refusals) and a second enumeration alive at the same time must stay untouched; (c) native runs on representative values of the other kinds (str, dict, nested dict, OpCode, None, equal values)",
    note=TRUST + "bounded in the size of the enumeration and the history length; class creation (type.__new__, vars, setattr, delattr on a class) is CPython's own semantics, executed natively; stated precondition: names are identifiers not starting with __ and not shadowing keys/add/remove/mro, values are not callables")
CHECKS["C19"] = dict(cat="other", ref="6 C19",
    text="mixed, hence 'other': (1) the four presence combinations of the two bindings are enumerated completely, each in its own native process: every module found by walking the package imports, every command class builds / encodes / decodes and every facade method works over a recording device (the C01/C02/C05/C13 contracts evaluated natively), the _has_* flags are right, init_device refuses with NotImplementedError before any open / connect iff the binding is missing or the path is foreign; (2) deductive dispatch contracts: init_device, SCSIDevice.__init__ and ISCSIDevice.__init__/open interpreted with the device string symbolic (every string, z3 sequence theory), binding flags, read_write and initiator name (explicit / empty / default) enumerated: /dev/ prefix -> SCSIDevice opened once on exactly that string object with mode by read_write; iscsi:// prefix -> ISCSIDevice with Context(initiator name or url), URL(context, exactly that url), connect(portal, lun of that URL); everything else, or a missing binding -> NotImplementedError and an empty trace",
    note=TRUST + "part (1) is enumeration of a finite configuration space, not deduction; assumed contracts of open / os.stat and the iscsi binding")


if __name__ == "__main__":
    main()

#!/usr/bin/env python3
# tools/seedmeta.py <name> <property> "<what it needs to manifest>" "<summary of the change>"
import json, os, re, sys, glob
name, prop, needs, summary = sys.argv[1:5]
d = "/verif/seeded/" + name
checks = {}
for f in sorted(glob.glob(d + "/check_*.txt")):
    p = os.path.basename(f)[6:-4]
    txt = open(f).read()
    ex = re.findall(r"exit=(\d+)", txt)
    obs = re.findall(r"obligation: (\S+/[^(]*?)(?: \(\d+ instance| \(|;)", txt)
    checks[p] = dict(exit=int(ex[-1]) if ex else None, violations=len(re.findall(r"^VIOLATION", txt, re.M)),
                     failed_obligations=sorted(set(o.strip() for o in obs))[:12],
                     no_failing_input_found=len(re.findall(r"no-failing-input-found", txt)))
meta = dict(name=name, breaks_property=prop, change=summary, needs_to_manifest=needs,
            confirmed=dict(tests_with_change=open(d + "/tests_with_change.txt").read().strip(),
                           demo_with_change=open(d + "/demo_with_change.txt").read().strip().splitlines()[-1],
                           demo_without_change=open(d + "/demo_without_change.txt").read().strip().splitlines()[-1]),
            ran="tools/seed.sh: scratch worktree confirmation, then git -C /repo apply patch.diff; ./check <property> --tier quick; git -C /repo checkout -- .",
            checks=checks,
            detected=any(c["exit"] == 1 for c in checks.values()))
json.dump(meta, open(d + "/meta.json", "w"), indent=1)
print(json.dumps(meta["checks"], indent=1)[:600], "detected:", meta["detected"])

#!/bin/bash
# tools/try_all.sh <patch> [properties...]   run the quick checks (all 19 by default) against a scratch copy of /repo
# with the patch applied; prints one line per property.  /repo and /verif/evidence are not touched.
patch=$1; shift
props=${@:-C01 C02 C03 C04 C05 C06 C07 C08 C09 C10 C11 C12 C13 C14 C15 C16 C17 C18 C19}
cd "$(dirname "$0")/.."
tmp=$(mktemp -d /var/tmp/pyscsi-all.XXXXXX); mkdir -p $tmp/repo; (cd /repo && git archive HEAD) | tar -x -C $tmp/repo
(cd $tmp/repo && patch -p1 -s < $patch) || { echo "patch failed"; rm -rf $tmp; exit 9; }
(cd $tmp/repo && /venv/bin/python -m pytest -q -p no:cacheprovider 2>&1 | tail -1)
worst=0
for p in $props; do
  PYSCSI_REPO=$tmp/repo VERIF_OUT_DIR=$tmp/out ./check $p --tier quick > $tmp/log_$p.txt 2>&1; e=$?
  echo "$p exit=$e $(tail -1 $tmp/log_$p.txt | cut -c1-110)"
  if [ $e != 0 ]; then (grep -E "^CHECKER-ERROR" $tmp/log_$p.txt; grep -E "^(UNDECIDED|VIOLATION|  obligation)" $tmp/log_$p.txt) | cut -c1-${WIDTH:-330} | head -${SHOW:-6}; fi
  [ $e -gt $worst ] && worst=$e
done
rm -rf $tmp
exit $worst

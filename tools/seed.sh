#!/bin/bash
# tools/seed.sh <name> <worktree> <property> [more properties...]
# 1. confirms in the scratch worktree: test suite passes with the change, demo exits 1 with it and 0 without;
# 2. stores patch.diff + demo under /verif/seeded/<name>/;
# 3. applies the patch to /repo, runs the quick check of each listed property, and undoes it straight afterwards.
set -u
name=$1; wt=$2; shift 2
props="$@"
out=/verif/seeded/$name
mkdir -p $out
cd $wt || exit 2
git diff -- pyscsi > $out/patch.diff
cp _seed/demo.py $out/demo.py 2>/dev/null
echo "== tests with the change"; /venv/bin/python -m pytest -q -p no:cacheprovider 2>&1 | tail -1 | tee $out/tests_with_change.txt
echo "== demo with the change"; PYTHONPATH=$wt /venv/bin/python _seed/demo.py > $out/demo_with_change.txt 2>&1; echo "exit=$?" | tee -a $out/demo_with_change.txt; tail -3 $out/demo_with_change.txt
git apply -R $out/patch.diff   # (not git stash: the stash is shared by all worktrees of a repository)
echo "== demo without the change"; PYTHONPATH=$wt /venv/bin/python _seed/demo.py > $out/demo_without_change.txt 2>&1; echo "exit=$?" | tee -a $out/demo_without_change.txt
git apply $out/patch.diff
cd /verif
if ! git -C /repo diff --quiet; then echo "/repo is dirty, refusing"; exit 2; fi
trap "git -C /repo checkout -- . ; git -C /verif checkout -- evidence 2>/dev/null" EXIT INT TERM
git -C /repo apply $out/patch.diff || { echo "patch does not apply to /repo"; exit 2; }
for p in $props; do
  echo "== ./check $p on the seeded tree"
  ./check $p --tier quick > $out/check_$p.txt 2>&1; echo "exit=$?" | tee -a $out/check_$p.txt
  grep -E "^(VIOLATION|  obligation|UNDECIDED|CHECKER-ERROR|KNOWN)" $out/check_$p.txt | cut -c1-260 | head -8
done
git -C /repo checkout -- .
git -C /repo status --short
# evidence files were rewritten by the seeded runs: restore the committed ones
git -C /verif checkout -- evidence 2>/dev/null

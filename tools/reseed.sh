#!/bin/bash
# tools/reseed.sh <name> <property>...   re-run checks against a stored seeded change (apply, check, undo)
name=$1; shift
out=/verif/seeded/$name
cd /verif
if ! git -C /repo diff --quiet; then echo "/repo is dirty, refusing"; exit 2; fi
trap "git -C /repo checkout -- . ; git -C /verif checkout -- evidence 2>/dev/null" EXIT INT TERM
git -C /repo apply $out/patch.diff || exit 2
for p in "$@"; do
  ./check $p --tier quick > $out/check_$p.txt 2>&1; echo "exit=$?" >> $out/check_$p.txt
  echo "$name $p $(tail -1 $out/check_$p.txt)"
  grep -E "^(VIOLATION|  obligation|UNDECIDED|CHECKER-ERROR)" $out/check_$p.txt | cut -c1-230 | head -${SHOW:-4}
done
git -C /repo checkout -- .
git -C /verif checkout -- evidence 2>/dev/null

# contracts.bindings -- C19: the transport bindings are optional; a missing one is refused, not half-used.
#
# (1) configurations: {sgio absent, present} x {iscsi absent, present}, each in its own native process
#     (checks/c19_config.py): every module of the package imports, every command builds / encodes / decodes, the
#     facade works over a recording device, init_device refuses iff the binding is missing -- a complete
#     enumeration of a finite configuration space (not a deduction);
# (2) dispatch contracts (deductive): init_device, SCSIDevice.__init__, ISCSIDevice.__init__/open with the device
#     string symbolic (every string), binding flags and read_write enumerated.
import importlib
import json
import os
import subprocess
import sys

from pyvc import values as V
from pyvc.unit import Unit, Str, register
from spec.stubs.world import World
from .device import world_installed, devmod, iscsimod, EXTERNAL_ASSUMPTIONS

VERIF = os.path.dirname(os.path.dirname(os.path.abspath(__file__)))


class Configurations(Unit):
    native_timeout = 0  # runs long by design (own budgets / child processes): no per-call alarm
    name = "bindings/configurations"
    properties = ("C19",)
    level = "bounded"
    bound_note = "complete enumeration of the four binding configurations (a missing binding realised as None in sys.modules, as no such module, and as a module whose import fails) x every module of the package, executed natively (enumeration, not deduction)"

    def cases(self, tier):
        # the four presence combinations; "missing" is realised in three ways: None in sys.modules (default), no such
        # module at all (!absent), installed but not loadable -- the import raises a plain ImportError (!broken)
        return [{"have": h} for h in ("", "sgio", "iscsi", "sgio,iscsi", "sgio!absent,iscsi!absent", "sgio!broken,iscsi", "sgio,iscsi!broken",
                                      "sgio!broken,iscsi!absent", "sgio!absent,iscsi!broken")]

    def case_id(self, case):
        return "bindings=%s" % (case["have"] or "none")

    def run(self, X, case, a):
        env = dict(os.environ, PYTHONDONTWRITEBYTECODE="1")
        p = subprocess.run([sys.executable, "-B", os.path.join(VERIF, "checks", "c19_config.py"), case["have"]],
                           capture_output=True, text=True, timeout=600, env=env)
        for line in p.stdout.splitlines():
            if line.startswith("C19JSON"):
                return json.loads(line[7:])
        return [["configuration-process-completes", False, (p.stderr or p.stdout)[-300:]]]

    def ensures(self, case, a, out, X):
        if out.kind != "return":
            yield "C19", "configuration-evaluated", False
            return
        yield "C19", "configuration-nonempty", len(out.value) > 100
        for item, ok, detail in out.value:
            yield "C19", "%s%s" % (item, "" if ok else " (%s)" % detail[:80]), ok


def utilsmod():
    return importlib.import_module("pyscsi.utils")


class Dispatch(Unit):
    """init_device / SCSIDevice / ISCSIDevice for every device string"""

    name = "bindings/dispatch"
    properties = ("C19",)
    assumptions = EXTERNAL_ASSUMPTIONS

    def functions(self):
        return [utilsmod().init_device, devmod().SCSIDevice.__init__, devmod().SCSIDevice.open, iscsimod().ISCSIDevice.__init__, iscsimod().ISCSIDevice.open]

    def cases(self, tier):
        out = []
        for entry in ("init_device", "SCSIDevice", "ISCSIDevice"):
            for hs in (True, False):
                for hi in (True, False):
                    for rw in (False, True, 1, 0):  # the flag is documented as a truth value: 1 / 0 are as good as True / False
                        for ini in ("explicit", "empty", "default"):
                            if rw in (1, 0) and rw is not True and rw is not False and (entry == "ISCSIDevice" or ini != "default" or not (hs and hi)):
                                continue
                            if entry == "SCSIDevice" and (ini != "default" or not hi):
                                continue
                            if entry == "ISCSIDevice" and (rw or not hs or ini == "default"):
                                continue
                            if entry == "init_device" and ini == "empty":
                                continue
                            out.append({"entry": entry, "sgio": hs, "iscsi": hi, "rw": rw, "initiator": ini})
        return out

    def case_id(self, case):
        return "%s,sgio=%s,iscsi=%s,rw=%s,initiator=%s" % (case["entry"], case["sgio"], case["iscsi"], case["rw"], case["initiator"])

    def inputs(self, case):
        if case["initiator"] == "explicit":
            return {"dev": Str(), "ini": Str()}      # every non-empty initiator name (iqn., eui., naa., anything else)
        return {"dev": Str()}

    def requires(self, case, a):
        if case["initiator"] != "explicit":
            return []
        if isinstance(a.ini, V.SStr):
            import z3

            return [V.SBool(z3.Length(a.ini.e) >= 1)]
        return [len(a.ini) >= 1]

    def _ini(self, case, a):
        return a.ini if case["initiator"] == "explicit" else {"empty": ""}.get(case["initiator"])

    def run(self, X, case, a):
        w = World()
        w.all_present = True
        self.world = w
        ini = self._ini(case, a)
        with world_installed(w, has_sgio=case["sgio"], has_iscsi=case["iscsi"]):
            if case["entry"] == "init_device":
                if ini is None:
                    return X.call(utilsmod().init_device, a.dev, case["rw"])
                return X.call(utilsmod().init_device, a.dev, case["rw"], ini)
            if case["entry"] == "SCSIDevice":
                return X.call(devmod().SCSIDevice, a.dev, case["rw"])
            return X.call(iscsimod().ISCSIDevice, a.dev, ini)

    def ensures(self, case, a, out, X):
        dev = a.dev
        if X.symbolic:
            import z3

            is_dev = V.SBool(z3.PrefixOf(z3.StringVal("/dev/"), dev.e))
            is_iscsi = V.SBool(z3.PrefixOf(z3.StringVal("iscsi://"), dev.e))
        else:
            is_dev, is_iscsi = dev.startswith("/dev/"), dev.startswith("iscsi://")
        w = self.world
        touched = [t for t in w.trace if t[0] in ("open", "open-failed", "stat", "iscsi.Context", "iscsi.URL", "iscsi.connect", "iscsi.set_targetname")]
        entry = case["entry"]
        want_sg = V.band(is_dev, case["sgio"]) if entry in ("init_device", "SCSIDevice") else False
        want_is = V.band(is_iscsi, case["iscsi"]) if entry in ("init_device", "ISCSIDevice") else False
        if out.kind == "raise":
            yield "C19", "refusal-is-NotImplementedError (got %s)" % type(out.exc).__name__, isinstance(out.exc, NotImplementedError)
            yield "C19", "refused-only-when-the-binding-is-missing-or-the-path-is-foreign", V.band(V.bnot(want_sg), V.bnot(want_is))
            yield "C19", "refused-before-any-file-or-connection-is-opened", len(touched) == 0
            return
        d = out.value
        yield "C19", "accepted-only-for-a-handled-path-with-its-binding", V.bor(want_sg, want_is)
        if isinstance(d, devmod().SCSIDevice):
            yield "C19", "SCSIDevice-only-for-/dev/-paths-with-sgio", want_sg
            opens = [t for t in w.trace if t[0] == "open"]
            yield "C19", "exactly-one-open", len(opens) == 1
            if len(opens) == 1:
                yield "C19", "opened-on-exactly-the-requested-path", opens[0][1] is dev or opens[0][1] == dev if not X.symbolic else opens[0][1] is dev
                yield "C19", "open-mode-by-read_write", opens[0][2] == ("w+b" if case["rw"] else "rb")
            yield "C19", "no-iscsi-activity", not [t for t in w.trace if t[0].startswith("iscsi.")]
        elif isinstance(d, iscsimod().ISCSIDevice):
            yield "C19", "ISCSIDevice-only-for-iscsi://-urls-with-the-binding", want_is
            ctxs = [t for t in w.trace if t[0] == "iscsi.Context"]
            urls = [t for t in w.trace if t[0] == "iscsi.URL"]
            conns = [t for t in w.trace if t[0] == "iscsi.connect"]
            yield "C19", "one-context-one-url-one-connect", len(ctxs) == 1 and len(urls) == 1 and len(conns) == 1
            if len(ctxs) == 1 and len(urls) == 1 and len(conns) == 1:
                ini = self._ini(case, a)
                if case["initiator"] == "explicit":
                    yield "C19", "context-created-with-the-given-initiator-name", (ctxs[0][2] is ini) if X.symbolic else (ctxs[0][2] == ini)
                elif ini == "":
                    yield "C19", "context-falls-back-to-the-url-for-an-empty-initiator-name", ctxs[0][2] is dev
                else:
                    yield "C19", "context-created-with-the-default-initiator-name", isinstance(ctxs[0][2], str) and ctxs[0][2].startswith("iqn.")
                yield "C19", "url-is-exactly-the-requested-one", urls[0][3] is dev and urls[0][2] is ctxs[0][1]
                yield "C19", "connect-uses-portal-and-lun-of-that-url", conns[0][2] == ("portal-of", dev) and conns[0][3] == ("lun-of", dev) if not X.symbolic else (conns[0][2][1] is dev and conns[0][3][1] is dev)
            yield "C19", "no-file-opened", not [t for t in w.trace if t[0] == "open"]
        else:
            yield "C19", "returns-a-device-object", False


register(Configurations())
register(Dispatch())

# contracts.cdb_commands -- contracts of the command constructors (L2) against spec.cdb_layouts.
#
# One unit per SCSICommand subclass found in the package.  Postconditions are taken from the property
# statements (C01: wire format, C03: data buffers, C17: refusals) and phrased with the independent layout table.
import inspect

from pyvc import values as V
from pyvc.unit import Unit, U, register, Outcome
from spec import cdb_layouts as L
from spec import t10_opcodes as T
from . import common as C

# how the facade obtains the operation code of a command (property C13: "the operation code the attached
# device's command set assigns to it"); commands not listed use the T10 name(s) of their layout
LOOKUP = {
    "ReadCapacity16": ("suffix", "9E"),
    "GetLBAStatus": ("suffix", "9E"),
    "ReportPriority": ("suffix", "A3"),
    "ReportTargetPortGroups": ("suffix", "A3"),
}

BLOCK_CLASSES = ("Read10", "Read12", "Read16", "Write10", "Write12", "Write16", "WriteSame10")


def lookups(key):
    lay = L.CDB[key]
    if key in LOOKUP:
        return [LOOKUP[key]]
    return [("name", n) for n in L.t10_names(lay)]


def sets_offering(key):
    """[(set, how)] for every command set that offers the command under the name the facade asks for"""
    out = []
    for s in C.SETS:
        for how in lookups(key)[:1]:  # the facade uses the first (primary) name only
            if C.find_opcode(s, how) is not None:
                out.append((s, how))
    return out


class CtorUnit(Unit):
    properties = ("C01", "C03", "C17", "C09")
    frame_check = True

    def __init__(self, cls):
        self.cls = cls
        self.key = L.layout_key(cls)
        self.layout = L.CDB.get(self.key)
        self.name = "ctor/" + self.key
        self.sig = inspect.signature(cls.__init__)

    def functions(self):
        from pyscsi.pyscsi.scsi_command import SCSICommand

        fs = [self.cls.__init__, SCSICommand.__init__, SCSICommand.init_cdb, SCSICommand.build_cdb, SCSICommand.marshall_cdb]
        for n in ("scsi_to_ata_lba_convert",):
            if n in self.cls.__dict__:
                fs.append(getattr(self.cls, n))
        return fs

    # ---- cases
    def variants(self, tier):
        return [{}]

    def cases(self, tier):
        out = []
        for s, how in sets_offering(self.key):
            for v in self.variants(tier):
                for mode in (("modular",) if tier == "quick" else ("modular", "inline")):
                    d = {"set": s, "how": list(how), "mode": mode}
                    d.update(v)
                    out.append(d)
        return out

    def interp_config(self, case):
        # modular: calls into L0 (encode_dict / decode_bits) are replaced by their contracts (proved by C10);
        # inline: the real bodies are interpreted all the way down
        if case.get("mode", "modular") == "modular":
            from .converter import l0_contracts

            return {"contracts": l0_contracts()}
        return {}

    def case_id(self, case):
        return ",".join("%s=%s" % (k, case[k]) for k in sorted(case) if k != "how")

    # ---- inputs
    def field_params(self):
        return list(self.layout.fields.keys())

    def inputs(self, case):
        d = {}
        for p, f in self.layout.fields.items():
            d[p] = U(f.width)
        if self.key in BLOCK_CLASSES or self.key == "WriteSame16":
            d["blocksize"] = U(32)
        if self.layout.data[0] == "alloc_nocdb":
            d[self.layout.data[1]] = U(16)
        return d

    def extra_kwargs(self, case, a, X):
        kw = {}
        if "data" in self.sig.parameters and self.layout.data[0] in ("out_caller", "out_caller_ndob"):
            kw["data"] = self.caller_data(case)
        return kw

    def caller_data(self, case):
        self._data = bytearray(b"\xa5" * 8)  # (a fresh one per run: what one run does to it must not reach the next)
        return self._data

    def opcode_obj(self, case):
        return C.find_opcode(case["set"], tuple(case["how"]))

    def run(self, X, case, a):
        kw = {p: a[p] for p in a if p in self.sig.parameters}
        kw.update(self.extra_kwargs(case, a, X))
        self._kw = kw
        self.rebuilt = None
        cmd = X.call(self.cls, self.opcode_obj(case), **kw)
        # the same object asked to build its CDB again from the very field values it carries
        cdb = getattr(cmd, "cdb", None)
        if isinstance(cdb, (bytearray, V.SBytes)) and self.layout is not None and len(cdb) == self.layout.length:
            first = list(cdb)
            try:
                dec = X.call(self.cls.unmarshall_cdb, cdb)
                self.rebuilt = ("return", first, X.call(cmd.build_cdb, **dec))
            except V.EngineSignal:
                raise
            except Exception as ex:
                self.rebuilt = ("raise", first, ex)
        return cmd

    # ---- exceptional postconditions (C17)
    def raises(self, case, a):
        """{exception class name: condition under which exactly that exception is raised}"""
        if self.key in BLOCK_CLASSES:
            return {"MissingBlocksizeException": a.blocksize == 0}
        if self.key == "WriteSame16":
            return {"MissingBlocksizeException": V.band(a.ndob == 0, a.blocksize == 0)}
        return {}

    # ---- postconditions
    def ensures(self, case, a, out, X):
        lay = self.layout
        spec_raises = self.raises(case, a)
        if out.kind == "raise":
            hit = False
            for name, cond in spec_raises.items():
                if out.raised(name):
                    hit = True
                    yield "C17", "raises:%s-only-when-specified" % name, cond
            if not hit:
                # the constructor must succeed for every in-range argument tuple
                yield "C01", "constructor-returns (raised %s)" % type(out.exc).__name__, False
            return
        for name, cond in spec_raises.items():
            yield "C17", "raises:%s-whenever-specified" % name, V.bnot(cond)
        cmd = out.value
        cdb = cmd.cdb
        yield "C01", "cdb-is-byte-buffer", isinstance(cdb, (bytearray, V.SBytes)) and C.is_byte_cells(cdb)
        if not isinstance(cdb, (bytearray, bytes, V.SBytes)):
            return
        # length: what SAM prescribes for the T10 operation code of this command
        yield "C01", "cdb-length", len(cdb) == lay.length and T.cdb_length(lay.opcode) == lay.length
        if len(cdb) != lay.length:
            return
        yield "C01", "opcode", cdb[0] == lay.opcode
        if lay.sa is not None:
            yield "C01", "service-action", lay.sa_field.decode(cdb) == lay.sa
        for p, f in lay.fields.items():
            yield "C01", "field:%s (%s)" % (p, f.describe()), f.decode(cdb) == self.expected_field(p, a, case)
        for i in range(lay.length):
            m = lay.reserved_mask(i)
            if m:
                yield "C01", "reserved-bits-zero:byte%d" % i, (cdb[i] & m) == 0
        yield from self.ensures_data(case, a, cmd, cdb)
        rb = getattr(self, "rebuilt", None)
        if rb is not None:
            ok = rb[0] == "return" and isinstance(rb[2], (bytearray, bytes, V.SBytes)) and len(rb[2]) == len(rb[1])
            note = "" if rb[0] == "return" else " (raised %s)" % type(rb[2]).__name__
            if ok:
                eq = True
                for x, y in zip(rb[1], list(rb[2])):
                    if x is not y:
                        eq = V.band(eq, x == y)
                ok = eq
            yield "C01", "build_cdb-again-on-the-same-object-gives-the-same-wire-format" + note, ok
            yield "C09", "repeating-build_cdb-with-equal-inputs-yields-equal-bytes" + note, ok

    def expected_field(self, p, a, case):
        return a[p]

    def ensures_data(self, case, a, cmd, cdb):
        lay = self.layout
        rule = lay.data
        din, dout = cmd.datain, cmd.dataout
        yield "C03", "datain-is-buffer", C.is_buffer_object(din)
        yield "C03", "dataout-is-buffer", C.is_buffer_object(dout)
        if not C.is_buffer_object(din) or not C.is_buffer_object(dout):
            return
        nin, nout = V.buf_len(din), V.buf_len(dout)
        if rule[0] == "none":
            yield "C03", "datain-empty", nin == 0
            yield "C03", "dataout-empty", nout == 0
        elif rule[0] == "alloc":
            f = lay.fields[rule[1]]
            yield "C03", "datain-length==allocation-length-in-cdb", nin == f.decode(cdb)
            yield "C03", "dataout-empty", nout == 0
        elif rule[0] == "alloc_nocdb":
            yield "C03", "datain-length==alloclen", nin == a[rule[1]]
            yield "C03", "dataout-empty", nout == 0
        elif rule[0] == "blocks":
            yield "C03", "datain-length==tl*blocksize", nin == a[rule[1]] * lay.fields[rule[2]].decode(cdb)
            yield "C03", "dataout-empty", nout == 0
        elif rule[0] == "out_caller":
            yield "C03", "dataout-is-callers-object", dout is self._kw["data"]
            yield "C03", "datain-empty", nin == 0
            yield from self.callers_data_untouched()
        elif rule[0] == "out_caller_ndob":
            yield "C03", "dataout-is-callers-object-unless-ndob", V.bor(a.ndob != 0, dout is self._kw["data"])
            yield "C03", "dataout-empty-with-ndob", V.bor(a.ndob == 0, nout == 0)
            yield "C03", "datain-empty", nin == 0
            yield from self.callers_data_untouched()
        elif rule[0] == "out_list":
            f = lay.derived[rule[1]]
            yield "C03", "parameter-list-length==len(dataout)", f.decode(cdb) == nout
            yield "C05", "parameter-list-length==len(dataout)", f.decode(cdb) == nout
            yield "C03", "datain-empty", nin == 0

    def callers_data_untouched(self):
        """the data the caller hands over for the data-out phase is the caller's: building a command neither grows nor
        changes it (another command built from the same buffer sees the same bytes)"""
        d = self._kw.get("data")
        if isinstance(d, (bytearray, V.SBytes)):
            same = len(d) == 8 and all((not V.is_sym(c)) and c == 0xA5 for c in list(d))
            yield "C03", "callers-data-buffer-is-not-modified (%d bytes afterwards)" % len(d) if not same else "callers-data-buffer-is-not-modified", same
            yield "C09", "callers-data-buffer-is-not-modified", same

    def canaries(self, case, a, out, X):
        if out.kind == "return" and isinstance(out.value.cdb, (bytearray, V.SBytes)) and self.layout.fields:
            p, f = next(iter(self.layout.fields.items()))
            if len(out.value.cdb) == self.layout.length:
                yield "canary:field-%s-off-by-one" % p, f.decode(out.value.cdb) == a[p] + 1


class ATAUnit(CtorUnit):
    def variants(self, tier):
        return [{"extra_tl": e, "data": d} for e in ("none", "given") for d in ("none", "given")]

    def inputs(self, case):
        d = super().inputs(case)
        d["blocksize"] = U(16)
        if case["extra_tl"] == "given":
            d["extra_tl"] = U(16)
        return d

    def extra_kwargs(self, case, a, X):
        kw = {}
        if case["data"] == "given":
            kw["data"] = self.caller_data(case)
        return kw

    def raises(self, case, a):
        return {"MissingBlocksizeException": V.band(a.byte_block != 0, a.t_type != 0, a.t_length != 0, a.blocksize == 0)}

    def ensures_data(self, case, a, cmd, cdb):
        din, dout = cmd.datain, cmd.dataout
        yield "C03", "datain-is-buffer", C.is_buffer_object(din)
        yield "C03", "dataout-is-buffer", C.is_buffer_object(dout)
        if not C.is_buffer_object(din) or not C.is_buffer_object(dout):
            return
        direction, n = L.ata_transfer(a.t_length, a.byte_block, a.t_type, a.t_dir, a.fetures, a.count,
                                      a.get("extra_tl"), a.blocksize)
        nin, nout = V.buf_len(din), V.buf_len(dout)
        if case["data"] == "given":
            data = self._kw["data"]
            if direction == "out":
                yield "C03", "ata:dataout-is-callers-object", dout is data
                yield "C03", "ata:datain-empty", nin == 0
            else:
                yield "C03", "ata:datain-is-callers-object", din is data
                yield "C03", "ata:dataout-empty", nout == 0
        else:
            if direction == "out":
                yield "C03", "ata:dataout-length==count*unit", nout == n
                yield "C03", "ata:datain-empty", nin == 0
            else:
                yield "C03", "ata:datain-length==count*unit", nin == n
                yield "C03", "ata:dataout-empty", nout == 0


class ReadCdUnit(CtorUnit):
    def ensures_data(self, case, a, cmd, cdb):
        din, dout = cmd.datain, cmd.dataout
        yield "C03", "datain-is-buffer", C.is_buffer_object(din)
        yield "C03", "dataout-is-buffer", C.is_buffer_object(dout)
        if not C.is_buffer_object(din) or not C.is_buffer_object(dout):
            return
        # READ CD carries no allocation length; the buffer must hold TRANSFER LENGTH sectors of the largest
        # layout the CDB can select (2352 + 296 + 96 = 2744 bytes); the library's rule is 3072 per sector
        tl = self.layout.fields["tl"].decode(cdb)
        yield "C03", "datain-length==tl*3072", V.buf_len(din) == tl * 3072
        yield "C03", "datain-holds-tl-sectors", 3072 >= L.readcd_max_sector()
        yield "C03", "dataout-empty", V.buf_len(dout) == 0


class PRInGenericUnit(CtorUnit):
    """PersistentReserveIn base class: service action is an argument"""


SPECIAL = {
    "ATAPassThrough12": ATAUnit,
    "ATAPassThrough16": ATAUnit,
    "ReadCd": ReadCdUnit,
}
# constructors whose data-out is composed from structured arguments: contracts.dataout defines their units
STRUCTURED = ("ModeSelect6", "ModeSelect10", "PersistentReserveOut", "ExtendedCopy4", "ExtendedCopy5")

UNSPECIFIED = []


def build_units():
    units = []
    for cls in C.command_classes():
        key = L.layout_key(cls)
        if key not in L.CDB:
            UNSPECIFIED.append(cls.__module__ + "." + cls.__name__)
            continue
        if key in STRUCTURED:
            continue
        units.append(register(SPECIAL.get(key, CtorUnit)(cls)))
    return units


UNITS = build_units()

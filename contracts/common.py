# contracts.common -- helpers shared by the contract modules: access to the live library objects and to the
# independent spec.  Importable without z3.
import importlib
import inspect
import pkgutil
import sys

from pyvc import values as V

SETS = ("spc", "sbc", "ssc", "smc", "mmc")


def enum_command():
    return importlib.import_module("pyscsi.pyscsi.scsi_enum_command")


def table(setname):
    return getattr(enum_command(), setname)


def command_classes():
    """every SCSICommand subclass defined in pyscsi.pyscsi (found by walking the package, not listed)"""
    import pyscsi.pyscsi as P
    from pyscsi.pyscsi.scsi_command import SCSICommand

    out = []
    for m in pkgutil.iter_modules(P.__path__):
        if not m.name.startswith("scsi_cdb_"):
            continue
        mod = importlib.import_module("pyscsi.pyscsi." + m.name)
        for n, c in vars(mod).items():
            if isinstance(c, type) and issubclass(c, SCSICommand) and c is not SCSICommand and c.__module__ == mod.__name__:
                out.append(c)
    return out


def safe_getattr(obj, name, default=None):
    try:
        return getattr(obj, name)
    except AttributeError:
        return default


def find_opcode(setname, how):
    """the OpCode object the facade would use for a command on command set `setname`.
    how = ('name', 'READ_10') : attribute of the table;  ('suffix', '9E') : first key ending in the suffix
    (the look-up rule of get_opcode, re-implemented here so that the contract does not depend on it)"""
    t = table(setname)
    if how[0] == "name":
        return safe_getattr(t, how[1])
    for k in t.keys:
        if k[len(k) - 2:] == how[1]:
            return getattr(t, k)
    return None


def yield_all(prop, prefix, items):
    for name, cond in items:
        yield prop, prefix + name, cond


def is_byte_cells(buf):
    """every cell of an interpreter-level or real buffer is an integer in 0..255 (by construction / interval)"""
    if isinstance(buf, (bytes, bytearray)):
        return True
    if isinstance(buf, V.SBytes):
        for c in buf.cells:
            if isinstance(c, V.SInt):
                if c.lo is None or c.hi is None or c.lo < 0 or c.hi > 255:
                    return False
            elif not (isinstance(c, int) and 0 <= c <= 255):
                return False
        return True
    return isinstance(buf, (V.SZeros, V.SBuf))


def is_buffer_object(x):
    return isinstance(x, (bytes, bytearray, V.SBytes, V.SZeros, V.SBuf))


def cells(buf):
    return list(buf)

# contracts.device -- L3: SCSIDevice (SG_IO) and ISCSIDevice against the assumed contracts of the external
# bindings (spec/stubs).  Properties C07 (status handling) and C15 (no stale handle, handles released).
import contextlib
import importlib
from types import SimpleNamespace

from pyvc import values as V
from pyvc.unit import Unit, U, Bytes, Buf, Flag, register
from spec import sense_spec as S
from spec import t10_opcodes as T
from spec.stubs import sgio as stub_sgio, iscsi as stub_iscsi
from spec.stubs.world import World
from . import common as C

PATH = "/dev/sg7"
URL = "iscsi://192.0.2.1/iqn.2000-01.test:target/1"

EXTERNAL_ASSUMPTIONS = (
    "assumed contract of sgio.execute: returns iff GOOD; raises CheckConditionError(sense) iff CHECK CONDITION; raises another exception otherwise; may rewrite datain in place",
    "assumed contract of iscsi.Context/URL/Task/command: command() sets task.status to the reported status byte and task.raw_sense to the sense bytes on CHECK CONDITION",
    "assumed contract of open / os.stat / file.close: open returns a fresh handle bound to the path's current inode or raises; stat returns the current inode or raises FileNotFoundError; close may raise",
    "C15: the environment changes the device node only between library calls (not between open() and stat() inside SCSIDevice.open)",
)


def devmod():
    return importlib.import_module("pyscsi.pyscsi.scsi_device")


def iscsimod():
    return importlib.import_module("pyscsi.pyiscsi.iscsi_device")


@contextlib.contextmanager
def world_installed(world, has_sgio=True, has_iscsi=True):
    """route the externals of both device modules to `world` for the duration of one run"""
    dm, im = devmod(), iscsimod()
    saved = (dm.__dict__.get("open", _MISSING), dm.os, dm.sgio if hasattr(dm, "sgio") else _MISSING, dm._has_sgio,
             im.__dict__.get("iscsi", _MISSING), im._has_iscsi, stub_sgio.WORLD, stub_iscsi.WORLD)
    dm.open = world.open
    dm.os = FakeOS(world)
    dm.sgio = stub_sgio
    dm._has_sgio = has_sgio
    im.iscsi = stub_iscsi
    im._has_iscsi = has_iscsi
    stub_sgio.WORLD = world
    stub_iscsi.WORLD = world
    try:
        yield world
    finally:
        if saved[0] is _MISSING:
            del dm.open
        else:
            dm.open = saved[0]
        dm.os = saved[1]
        if saved[2] is _MISSING:
            if hasattr(dm, "sgio"):
                del dm.sgio
        else:
            dm.sgio = saved[2]
        dm._has_sgio = saved[3]
        if saved[4] is _MISSING:
            if hasattr(im, "iscsi"):
                del im.iscsi
        else:
            im.iscsi = saved[4]
        im._has_iscsi = saved[5]
        stub_sgio.WORLD = saved[6]
        stub_iscsi.WORLD = saved[7]


_MISSING = object()


class FakeOS:
    """the os module as seen by scsi_device: stat() answers from the ghost file system, everything else is the
    real module (so that a harmless use of os.path & co. is not an artefact of the harness)"""

    __pyvc_trusted__ = True

    def __init__(self, world):
        self._world = world

    def stat(self, path, *a, **k):
        if k.get("follow_symlinks") is False:
            return self._world.lstat(path)
        return self._world.stat(path)

    def lstat(self, path, *a, **k):
        return self._world.lstat(path)

    def __getattr__(self, name):
        import os as _os

        return getattr(_os, name)


PRIORS = ("none", "good", "cc", "cc-raw")
PRIOR_SENSE = bytes([0x70, 0, 0x06, 0, 0, 0, 0, 10, 0, 0, 0, 0, 0x29, 0x00, 0, 0, 0, 0])  # UNIT ATTENTION, 29h/00h


def run_prior(X, case, w, dev, cmd):
    """the earlier use of the same command object; returns what it left attached as raw sense"""
    prior = case.get("prior", "none")
    if prior != "none":
        w.status = 0x00 if prior == "good" else 0x02
        w.sense = PRIOR_SENSE
        try:
            X.call(dev.execute, cmd, en_raw_sense=(prior == "cc-raw"))
        except V.EngineSignal:
            raise
        except Exception:
            pass
        del w.trace[:]
    return cmd.raw_sense_data


def make_command():
    """a fresh real command (INQUIRY, 96 bytes data-in) as the object handed to execute()"""
    from pyscsi.pyscsi.scsi_cdb_inquiry import Inquiry

    return Inquiry(C.table("spc").INQUIRY, alloclen=8)


class _DeviceUnit(Unit):
    assumptions = EXTERNAL_ASSUMPTIONS

    def interp_config(self, case):
        from .converter import l0_contracts

        return {"contracts": l0_contracts()}


# ------------------------------------------------------------------------------------------------ C07, SG_IO


class SgioExecuteStatus(_DeviceUnit):
    """SCSIDevice.execute for every status the target may report and every sense buffer"""

    name = "device/SCSIDevice.execute:status"
    properties = ("C07",)

    def functions(self):
        D = devmod().SCSIDevice
        import pyscsi.pyscsi.scsi_sense as ss

        return [D.execute, D.__init__, D.open, D._is_replugged, ss.SCSICheckCondition.__init__]

    def cases(self, tier):
        lens = (18, 8) if tier == "quick" else (18, 8, 14, 32, 252)
        cs = [{"raw": r, "senselen": n, "prior": "none"} for r in (False, True) for n in lens]
        # "at any position in any sequence of commands": the same command object (and device) was used before --
        # it completed GOOD, or failed with CHECK CONDITION with / without raw sense capture
        cs += [{"raw": r, "senselen": 18, "prior": p} for r in (False, True) for p in PRIORS if p != "none"]
        return cs

    def inputs(self, case):
        return {"status": U(8), "sense": Bytes(case["senselen"], mutable=False)}

    def requires(self, case, a):
        # the target sends sense data in one of the four formats SPC defines
        rc = a.sense[0] & 0x7F
        yield V.bor(rc == 0x70, rc == 0x71, rc == 0x72, rc == 0x73)

    def run(self, X, case, a):
        w = World()
        w.present[PATH] = True
        w.inode[PATH] = 11
        self.world = w
        with world_installed(w):
            dev = X.call(devmod().SCSIDevice, PATH, False, False)
            cmd = make_command()
            self.cmd = cmd
            self.dev = dev
            self.pre_raw = run_prior(X, case, w, dev, cmd)
            w.status = a.status
            w.sense = a.sense
            return X.call(dev.execute, cmd, en_raw_sense=case["raw"])

    def ensures(self, case, a, out, X):
        yield from status_clauses(self, case, a, out, named_errors=False)

    def canaries(self, case, a, out, X):
        if out.kind == "return":
            yield "canary:returns-only-for-BUSY", a.status == 0x08


def status_clauses(unit, case, a, out, named_errors):
    """C07 for one execute() call: `a.status` is what the target reported, `a.sense` what it sent"""
    w, cmd, dev = unit.world, unit.cmd, unit.dev
    sent = [t for t in w.trace if t[0] in ("sgio.execute", "iscsi.command")]
    yield "C07", "command-sent-exactly-once", len(sent) == 1
    good = a.status == T.STATUS["GOOD"]
    cc = a.status == T.STATUS["CHECK_CONDITION"]
    no_sense = a.sense is None or len(a.sense) == 0
    if no_sense:
        # nothing to attach: a normal return would be indistinguishable from success
        if out.kind == "return":
            yield "C07", "normal-return-only-if-GOOD (no sense available to attach)", good
        else:
            yield "C07", "never-raises-when-GOOD", V.bnot(good)
        return
    if out.kind == "return":
        if case["raw"]:
            # with raw sense explicitly requested a CHECK CONDITION may be reported through cmd.raw_sense_data
            attached = cmd.raw_sense_data is a.sense
            yield "C07", "normal-return-only-if-GOOD (or raw sense attached on CHECK CONDITION)", V.bor(good, V.band(cc, attached))
            yield "C07", "no-sense-attached-when-GOOD", V.bor(V.bnot(good), cmd.raw_sense_data is unit.pre_raw)
        else:
            yield "C07", "normal-return-only-if-GOOD", good
        return
    exc = out.exc
    yield "C07", "never-raises-when-GOOD", V.bnot(good)
    is_cc_exc = isinstance(exc, dev.CheckCondition)
    yield "C07", "CheckCondition-raised-only-for-CHECK-CONDITION", V.bor(not is_cc_exc, cc)
    if is_cc_exc:
        kaq = S.key_asc_ascq(list(a.sense))
        if kaq is not None:
            key, asc, ascq = kaq
            yield "C07", "CheckCondition-reports-sense-key", _attr_eq(exc, lambda e: e.data["sense_key"], key)
            yield "C07", "CheckCondition-reports-asc", _attr_eq(exc, lambda e: e.asc, asc)
            yield "C07", "CheckCondition-reports-ascq", _attr_eq(exc, lambda e: e.ascq, ascq)
        if case["raw"]:
            yield "C07", "raw-sense-is-the-unmodified-buffer", cmd.raw_sense_data is a.sense
        else:
            yield "C07", "raw-sense-only-on-request (this call attaches nothing)", cmd.raw_sense_data is unit.pre_raw
    else:
        # CHECK CONDITION must surface as CheckCondition (raw capture may replace it only by a normal return)
        yield "C07", "CHECK-CONDITION-raises-CheckCondition (got %s)" % type(exc).__name__, V.bnot(cc)
        if named_errors:
            names = {"CONDITION_MET": "ConditionsMet", "BUSY": "BusyStatus", "RESERVATION_CONFLICT": "ReservationConflict",
                     "TASK_SET_FULL": "TaskSetFull", "ACA_ACTIVE": "ACAActive", "TASK_ABORTED": "TaskAborted"}
            for st, cls_name in names.items():
                is_named = isinstance(exc, getattr(dev, cls_name))
                yield "C07", "%s-raised-iff-status-%s" % (cls_name, st), V.bor(V.band(is_named, a.status == T.STATUS[st]),
                                                                               V.band(not is_named, a.status != T.STATUS[st]))


def _attr_eq(exc, getter, expected):
    try:
        return getter(exc) == expected
    except (AttributeError, KeyError):
        return False


# ------------------------------------------------------------------------------------------------ C07, iSCSI


class IscsiExecuteStatus(_DeviceUnit):
    name = "device/ISCSIDevice.execute:status"
    properties = ("C07",)

    def functions(self):
        D = iscsimod().ISCSIDevice
        import pyscsi.pyscsi.scsi_sense as ss

        return [D.execute, D.__init__, D.open, ss.SCSICheckCondition.__init__]

    def cases(self, tier):
        cs = SgioExecuteStatus.cases(self, tier)
        # the target / binding may also offer no sense at all, or an empty buffer (the code tolerates a missing
        # raw_sense attribute): such a command must still not look successful
        cs += [{"raw": r, "senselen": n, "prior": "none"} for r in (False, True) for n in (0, -1)]
        return cs

    def inputs(self, case):
        if case["senselen"] <= 0:
            return {"status": U(8)}
        return SgioExecuteStatus.inputs(self, case)

    def requires(self, case, a):
        if case["senselen"] <= 0:
            return []
        return SgioExecuteStatus.requires(self, case, a)

    def run(self, X, case, a):
        w = World()
        if case["senselen"] <= 0:
            a["sense"] = None if case["senselen"] < 0 else bytes()
        self.world = w
        with world_installed(w):
            dev = X.call(iscsimod().ISCSIDevice, URL, "iqn.2000-01.test:initiator")
            cmd = make_command()
            self.cmd = cmd
            self.dev = dev
            self.pre_raw = run_prior(X, case, w, dev, cmd)
            w.status = a.status
            w.sense = a.sense
            return X.call(dev.execute, cmd, en_raw_sense=case["raw"])

    def ensures(self, case, a, out, X):
        yield from status_clauses(self, case, a, out, named_errors=True)
        # C03, transport side: direction and transfer length handed to the binding
        tasks = self.world.events("iscsi.Task")
        yield "C07", "one-task-built", len(tasks) == 1
        if len(tasks) == 1:
            _, task, cdb, direction, xferlen = tasks[0]
            yield "C07", "task-carries-the-commands-cdb", cdb is self.cmd.cdb

    def canaries(self, case, a, out, X):
        if out.kind == "return":
            yield "canary:returns-only-for-BUSY", a.status == 0x08



# ------------------------------------------------------------------------------------------------ C03, transport side


class TransportTransfer(_DeviceUnit):
    """what execute() hands to the binding for a command with data-in / data-out buffers of ANY length: the very
    cdb and buffer objects of the command and, on iSCSI, the direction and exactly the buffer's length"""

    name = "device/execute:transfer"
    properties = ("C03", "C12")

    def functions(self):
        return [devmod().SCSIDevice.execute, iscsimod().ISCSIDevice.execute]

    def cases(self, tier):
        top = 9 if tier == "quick" else 40
        cs = [{"transport": t, "phase": ph, "len": "any"} for t in ("sgio", "iscsi") for ph in ("in", "out", "none")]
        cs += [{"transport": "iscsi", "phase": ph, "len": n} for ph in ("in", "out") for n in range(1, top)]
        # the SG_IO binding may report a residual count for a short transfer: whatever it returns, the command keeps its buffers
        cs += [{"transport": "sgio", "phase": ph, "len": n, "resid": True} for ph in ("in", "out") for n in (1, 4, 8, 36)]
        return cs

    def case_id(self, case):
        return ",".join("%s=%s" % kv for kv in sorted(case.items()))

    def inputs(self, case):
        if case["phase"] == "none":
            return {}
        if case["len"] == "any":
            return {"data": Buf(maxlen=1 << 32)}
        d = {"data": Bytes(case["len"])}
        if case.get("resid"):
            d["resid"] = U(lo=0, hi=case["len"])
        return d

    def run(self, X, case, a):
        w = World()
        w.present[PATH] = True
        w.inode[PATH] = 3
        self.world = w
        empty = bytearray(0)
        cmd = SimpleNamespace(cdb=bytearray(10), datain=a.data if case["phase"] == "in" else empty, dataout=a.data if case["phase"] == "out" else empty,
                              sense=None, raw_sense_data=None)
        self.cmd = cmd
        self.lens = (V.buf_len(cmd.datain), V.buf_len(cmd.dataout), cmd.datain, cmd.dataout)
        if case.get("resid"):
            w.resid = a.resid
        with world_installed(w):
            dev = X.call(devmod().SCSIDevice, PATH, True, False) if case["transport"] == "sgio" else X.call(iscsimod().ISCSIDevice, URL, "iqn.2000-01.test:i")
            del w.trace[:]
            r = X.call(dev.execute, cmd)
            # the same command object executed again (polling, retry): it must announce and carry the same transfer
            self.second = None
            if case.get("resid"):
                X.call(dev.execute, cmd)
                self.second = [t for t in w.trace if t[0] == "sgio.execute"][-1]
            return r

    def ensures(self, case, a, out, X):
        if out.kind != "return":
            yield "C03", "execute-returns-for-GOOD (%s)" % out.describe()[:60], False
            return
        w, cmd = self.world, self.cmd
        sent = [t for t in w.trace if t[0] in ("sgio.execute", "iscsi.command")]
        n_in, n_out, o_in, o_out = self.lens
        yield "C03", "execute-leaves-the-commands-buffers-in-place-and-at-their-length", cmd.datain is o_in and cmd.dataout is o_out and \
            V.compare("==", V.buf_len(cmd.datain), n_in) is not False and V.compare("==", V.buf_len(cmd.dataout), n_out) is not False and \
            (V.is_buffer(cmd.datain) and V.buf_len(cmd.datain) == n_in) is not False
        yield "C03", "binding-receives-exactly-one-command-per-execute", len(sent) == (2 if case.get("resid") else 1)
        if case.get("resid"):
            _, _, cdb2, dout2, din2, _ = self.second
            yield "C03", "re-executed-command-hands-over-buffers-of-the-announced-length", V.band(V.compare("==", V.buf_len(din2), n_in), V.compare("==", V.buf_len(dout2), n_out))
            return
        if len(sent) != 1:
            return
        if sent[0][0] == "sgio.execute":
            _, _, cdb, dout, din, _ = sent[0]
        else:
            _, _, _, task, dout, din = sent[0]
            cdb = task.cdb
        yield "C03", "binding-receives-the-commands-own-cdb-and-buffers", cdb is cmd.cdb and dout is cmd.dataout and din is cmd.datain
        if case["transport"] == "iscsi":
            tasks = w.events("iscsi.Task")
            yield "C03", "one-task", len(tasks) == 1
            if len(tasks) == 1:
                _, task, tcdb, direction, xferlen = tasks[0]
                nout, nin = V.buf_len(cmd.dataout), V.buf_len(cmd.datain)
                yield "C03", "iscsi-direction-matches-the-non-empty-buffer", direction == V.ite(nout != 0, 2, V.ite(nin != 0, 1, 0))
                yield "C03", "iscsi-transfer-length-is-exactly-the-buffer-length", xferlen == V.ite(nout != 0, nout, nin)


# ------------------------------------------------------------------------------------------------ C15


def _closed(h):
    """no usable handle: none at all, or a closed one"""
    return h is None or bool(getattr(h, "closed", False))


class SgioReplug(_DeviceUnit):
    """a history of execute() calls, each after an arbitrary environment step (node kept / replaced / removed /
    back again), with close() and the re-open possibly failing at every step; detection on and off, read-only and
    read-write.  Every value of the environment is symbolic, the number of steps is the bound."""

    name = "device/SCSIDevice.execute:replug"
    properties = ("C15",)

    def functions(self):
        D = devmod().SCSIDevice
        return [D.execute, D._is_replugged, D.open, D.close, D.__init__, devmod().get_inode]

    def cases(self, tier):
        steps = 2 if tier == "quick" else 3
        cs = [{"detect": d, "readwrite": rw, "steps": k} for d in (True, False) for rw in (False, True) for k in range(1, steps + 1)]
        # the device path is a symbolic link (/dev/disk/by-id/..., /dev/cdrom): the node it resolves to is replaced or
        # removed, the link itself stays
        cs += [{"detect": True, "readwrite": rw, "steps": k, "link": True} for rw in (False, True) for k in range(1, steps + 1)]
        # the inductive step (any history length): one execute() from an ARBITRARY state satisfying the representation
        # invariant INV = (current handle open and opened on the recorded inode) or (current handle closed, by a failed
        # re-open; recorded inode arbitrary).  __init__ establishes INV (init clauses), every step re-establishes it
        # (invariant clause), so the per-step clauses hold at every position of every history.
        cs += [{"detect": d, "readwrite": rw, "steps": 1, "from": "invariant"} for d in (True, False) for rw in (False, True)]
        return cs

    def case_id(self, case):
        return "detect=%s,readwrite=%s,steps=%s%s%s" % (case["detect"], case["readwrite"], case["steps"], ",from-any-state-satisfying-the-invariant" if case.get("from") else "",
                                                      ",path-is-a-symlink" if case.get("link") else "")

    def inputs(self, case):
        d = {"ino0": U(32), "status": U(8)}
        if case.get("from"):
            d.update({"pre_closed": Flag(), "rec": U(32)})
        for i in range(1, case["steps"] + 1):
            d.update({"ino%d" % i: U(32), "present%d" % i: Flag(), "close_fails%d" % i: Flag(), "open_fails%d" % i: Flag()})
        return d

    def run(self, X, case, a):
        w = World()
        self.world = w
        w.present[PATH] = True
        w.inode[PATH] = a.ino0
        w.sense = bytes([0x70, 0, 5, 0, 0, 0, 0, 10, 0, 0, 0, 0, 0x24, 0, 0, 0, 0, 0])
        if case.get("link"):
            w.link_inode[PATH] = 777001
        self.dev = None
        with world_installed(w):
            try:
                dev = X.call(devmod().SCSIDevice, PATH, case["readwrite"], case["detect"])
            except V.EngineSignal:
                raise
            except Exception as ex:
                self.init_error = ex
                return None
            self.dev = dev
            self.h0 = dev._file
            self.open_trace = list(w.trace)
            del w.trace[:]
            self.steps = []
            if case.get("from") and case["detect"]:
                # an arbitrary state satisfying INV (detection off: the handle of __init__ is never replaced or closed)
                h0 = dev._file
                if a.pre_closed:
                    h0.closed = True
                    h0.close_calls = 1
                    dev._ino = a.rec
            for i in range(1, case["steps"] + 1):
                # ---- environment step
                w.present[PATH] = a["present%d" % i]
                w.inode[PATH] = a["ino%d" % i]
                w.close_failure = a["close_fails%d" % i]
                w.open_failure = a["open_fails%d" % i]
                w.status = a.status if i == case["steps"] else 0
                pre = dev._file
                pre_closed = _closed(pre)
                mark = len(w.trace)
                cmd = make_command()
                try:
                    X.call(dev.execute, cmd)
                    res = "return"
                except V.EngineSignal:
                    raise
                except Exception as ex:
                    res = ex
                self.steps.append(dict(i=i, pre=pre, pre_closed=pre_closed, events=w.trace[mark:], res=res, cur=dev._file, cur_closed=_closed(dev._file), rec=dev._ino))
            return None

    def ensures(self, case, a, out, X):
        if getattr(self, "dev", None) is None and out.kind == "return":
            yield "C15", "init:device-opens-on-an-existing-node (raised %s)" % type(getattr(self, "init_error", None)).__name__, False
            return
        if out.kind != "return":
            yield "C15", "history-completes (%s)" % out.describe()[:80], False
            return
        w, dev, h0 = self.world, self.dev, self.h0
        # --- the open performed by __init__
        opens = [t for t in self.open_trace if t[0] == "open"]
        yield "C15", "init:one-open", len(opens) == 1
        if len(opens) == 1:
            yield "C15", "init:opened-on-the-requested-path", opens[0][1] == PATH
            yield "C15", "init:mode-w+b-iff-readwrite", opens[0][2] == ("w+b" if case["readwrite"] else "rb")
        for st in self.steps:
            i, ev, pre = st["i"], st["events"], st["pre"]
            p = "step%d:" % i
            present, ino = a["present%d" % i], a["ino%d" % i]
            close_fails, open_fails = a["close_fails%d" % i], a["open_fails%d" % i]
            execs = [t for t in ev if t[0] == "sgio.execute"]
            closes = [t for t in ev if t[0] == "close"]
            reopens = [t for t in ev if t[0] == "open"]
            raised = st["res"] != "return"
            yield "C15", p + "at-most-one-command-sent", len(execs) <= 1
            if not case["detect"]:
                yield "C15", p + "detection-off:same-handle", len(execs) == 1 and execs[0][1] is h0
                yield "C15", p + "detection-off:no-reopen", not reopens and not closes
                continue
            # the handle the device holds must be replaced iff it is not an open handle on the node now at the path
            needs_fresh = True if st["pre_closed"] else (pre.ino != ino)
            if execs:
                h = execs[0][1]
                yield "C15", p + "command-goes-through-a-handle-on-the-current-node", V.band(present, h.ino == ino)
                yield "C15", p + "handle-used-is-the-devices-current-handle", h is st["cur"]
                if h is not pre:
                    yield "C15", p + "stale-handle-closed-before-the-command", pre is None or pre.close_calls == 1 and (st["pre_closed"] or (len(closes) >= 1 and ev.index(closes[0]) < ev.index(execs[0])))
                    yield "C15", p + "fresh-handle-opened-before-the-command", len(reopens) == 1 and ev.index(reopens[0]) < ev.index(execs[0])
                    yield "C15", p + "reopen-keeps-mode", reopens[0][2] == ("w+b" if case["readwrite"] else "rb") if reopens else False
                else:
                    yield "C15", p + "original-handle-kept-only-if-it-is-on-the-current-node", V.bnot(needs_fresh)
            else:
                yield "C15", p + "no-command-only-if-node-vanished-or-closing/re-opening-failed", V.bor(V.bnot(present), V.band(needs_fresh, V.bor(close_fails if not st["pre_closed"] else False, open_fails)))
                yield "C15", p + "error-reported-when-nothing-was-sent", raised
            # vanished node: reported as an error, never silently using the old handle
            yield "C15", p + "vanished-node-is-an-error", V.bor(present, raised and not execs)
            # replaced node and close failure: the fresh handle is nevertheless installed
            if raised and not execs and not st["pre_closed"]:
                yield "C15", p + "after-close-failure-a-fresh-handle-is-installed", V.bor(V.bnot(V.band(present, needs_fresh, close_fails, V.bnot(open_fails))),
                                                                                         st["cur"] is not pre and not st["cur_closed"])
            # representation invariant after every step: an open current handle was opened on the recorded inode
            if not st["cur_closed"]:
                yield "C15", p + "invariant:recorded-inode-is-the-open-handles", st["cur"].ino == st["rec"]
        # a vanished node is an error: in particular the read-write open mode must not re-create the path as a file
        yield "C15", "nothing-is-created-at-the-device-path", len(w.created) == 0
        cur = dev._file
        for h in w.handles:
            if h is not cur:
                yield "C15", "invariant:superseded-handle-released-exactly-once", h.close_calls == 1
            else:
                yield "C15", "invariant:current-handle-released-at-most-once", h.close_calls == (1 if h.closed else 0)

    def canaries(self, case, a, out, X):
        for st in getattr(self, "steps", []):
            execs = [t for t in st["events"] if t[0] == "sgio.execute"]
            if case["detect"] and execs and execs[0][1] is not st["pre"] and not st["pre_closed"]:
                yield "canary:reopened-although-node-unchanged", a["ino%d" % st["i"]] == st["pre"].ino


class SgioRelease(_DeviceUnit):
    """close(), and leaving a with block normally or by exception, release the OS handle exactly once"""

    name = "device/SCSIDevice:release"
    properties = ("C15",)

    def functions(self):
        D = devmod().SCSIDevice
        from pyscsi.pyscsi.scsi import SCSI

        return [D.close, D.__enter__, D.__exit__, SCSI.__enter__, SCSI.__exit__]

    def cases(self, tier):
        cs = [{"via": v, "how": h} for v in ("device", "facade") for h in ("close", "with-normal") + tuple("with-exception:" + k for k in EXIT_EXCEPTIONS)]
        # the node is replaced (replug) after the object was created and before the with block is entered / close() is
        # called: whatever the object does about it, every handle it ever opened is released exactly once
        cs += [{"via": v, "how": h, "replug": True} for v in ("device", "facade") for h in ("close", "with-normal", "with-exception:RuntimeError")]
        return cs

    def inputs(self, case):
        if case.get("replug"):
            return {"ino0": U(32), "ino1": U(32)}
        return {"ino0": U(32)}

    def requires(self, case, a):
        return [a.ino0 != a.ino1] if case.get("replug") else []

    def run(self, X, case, a):
        from pyscsi.pyscsi.scsi import SCSI

        w = World()
        self.world = w
        w.present[PATH] = True
        w.inode[PATH] = a.ino0
        with world_installed(w):
            dev = X.call(devmod().SCSIDevice, PATH)
            self.h0 = dev._file
            obj = dev
            if case["via"] == "facade":
                obj = object.__new__(SCSI)
                obj.device = dev
                obj._blocksize = 0
            if case.get("replug"):
                w.inode[PATH] = a.ino1
            if case["how"] == "close":
                X.call(dev.close)
                return None
            ctx = X.call(obj.__enter__)
            if case["how"] == "with-normal":
                X.call(obj.__exit__, None, None, None)
            else:
                ex = exit_exception(case["how"], dev)
                r = X.call(obj.__exit__, type(ex), ex, None)
                return ("exit-returned", r, ctx is obj)
            return ("exit-returned", None, ctx is obj)

    def ensures(self, case, a, out, X):
        yield "C15", "release-returns", out.kind == "return"
        if case.get("replug"):
            hs = self.world.handles
            yield "C15", "every-handle-ever-opened-is-released-exactly-once (%s)" % ", ".join("%d" % h.close_calls for h in hs), len(hs) >= 1 and all(h.close_calls == 1 for h in hs)
        else:
            yield "C15", "exactly-one-close-on-the-handle", self.h0.close_calls == 1 and len(self.world.events("close")) == 1
        if out.kind == "return" and out.value is not None:
            yield "C15", "__enter__-returns-the-object", out.value[2]
            if case["how"].startswith("with-exception"):
                yield "C15", "__exit__-does-not-swallow-the-exception", not out.value[1]


# the kinds of exception a with block is left by: an ordinary error, the errors an unplugged / failing node produces,
# a failed command, and a BaseException
EXIT_EXCEPTIONS = ("RuntimeError", "FileNotFoundError", "OSError", "PermissionError", "ValueError", "CheckCondition", "KeyboardInterrupt")


def exit_exception(how, dev):
    kind = how.split(":", 1)[1]
    if kind == "CheckCondition":
        return dev.CheckCondition(bytes([0x70, 0, 5, 0, 0, 0, 0, 10, 0, 0, 0, 0, 0x24, 0, 0, 0, 0, 0]))
    import builtins as _b

    if kind in ("FileNotFoundError", "PermissionError"):
        return getattr(_b, kind)(2, "No such file or directory", PATH)
    return getattr(_b, kind)("body failed")


class IscsiRelease(_DeviceUnit):
    name = "device/ISCSIDevice:release"
    properties = ("C15",)

    def functions(self):
        D = iscsimod().ISCSIDevice
        return [D.close, D.__enter__, D.__exit__]

    def cases(self, tier):
        return [{"how": h} for h in ("close", "with-normal") + tuple("with-exception:" + k for k in EXIT_EXCEPTIONS)]

    def run(self, X, case, a):
        w = World()
        self.world = w
        with world_installed(w):
            dev = X.call(iscsimod().ISCSIDevice, URL, "iqn.2000-01.test:initiator")
            if case["how"] == "close":
                X.call(dev.close)
                return None
            ctx = X.call(dev.__enter__)
            if case["how"] == "with-normal":
                return ("exit-returned", X.call(dev.__exit__, None, None, None), ctx is dev)
            ex = exit_exception(case["how"], dev)
            return ("exit-returned", X.call(dev.__exit__, type(ex), ex, None), ctx is dev)

    def ensures(self, case, a, out, X):
        yield "C15", "release-returns", out.kind == "return"
        yield "C15", "exactly-one-disconnect", len(self.world.events("iscsi.disconnect")) == 1
        if out.kind == "return" and out.value is not None:
            yield "C15", "__enter__-returns-the-object", out.value[2]
            yield "C15", "__exit__-does-not-swallow-the-exception", not out.value[1]


register(SgioExecuteStatus())
register(IscsiExecuteStatus())
register(TransportTransfer())
register(SgioReplug())
register(SgioRelease())
register(IscsiRelease())

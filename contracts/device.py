# contracts.device -- L3: SCSIDevice (SG_IO) and ISCSIDevice against the assumed contracts of the external
# bindings (spec/stubs).  Properties C07 (status handling) and C15 (no stale handle, handles released).
import contextlib
import importlib
from types import SimpleNamespace

from pyvc import values as V
from pyvc.unit import Unit, U, Bytes, Flag, register
from spec import sense_spec as S
from spec import t10_opcodes as T
from spec.stubs import sgio as stub_sgio, iscsi as stub_iscsi
from spec.stubs.world import World
from . import common as C

PATH = "/dev/sg7"
URL = "iscsi://192.0.2.1/iqn.2000-01.test:target/1"

EXTERNAL_ASSUMPTIONS = (
    "assumed contract of sgio.execute: returns iff GOOD; raises CheckConditionError(sense) iff CHECK CONDITION; raises another exception otherwise; may rewrite datain in place",
    "assumed contract of iscsi.Context/URL/Task/command: command() sets task.status to the reported status byte and task.raw_sense to the sense bytes on CHECK CONDITION",
    "assumed contract of open / os.stat / file.close: open returns a fresh handle bound to the path's current inode or raises; stat returns the current inode or raises FileNotFoundError; close may raise",
    "C15: the environment changes the device node only between library calls (not between open() and stat() inside SCSIDevice.open)",
)


def devmod():
    return importlib.import_module("pyscsi.pyscsi.scsi_device")


def iscsimod():
    return importlib.import_module("pyscsi.pyiscsi.iscsi_device")


@contextlib.contextmanager
def world_installed(world, has_sgio=True, has_iscsi=True):
    """route the externals of both device modules to `world` for the duration of one run"""
    dm, im = devmod(), iscsimod()
    saved = (dm.__dict__.get("open", _MISSING), dm.os, dm.sgio if hasattr(dm, "sgio") else _MISSING, dm._has_sgio,
             im.__dict__.get("iscsi", _MISSING), im._has_iscsi, stub_sgio.WORLD, stub_iscsi.WORLD)
    dm.open = world.open
    dm.os = FakeOS(world)
    dm.sgio = stub_sgio
    dm._has_sgio = has_sgio
    im.iscsi = stub_iscsi
    im._has_iscsi = has_iscsi
    stub_sgio.WORLD = world
    stub_iscsi.WORLD = world
    try:
        yield world
    finally:
        if saved[0] is _MISSING:
            del dm.open
        else:
            dm.open = saved[0]
        dm.os = saved[1]
        if saved[2] is _MISSING:
            if hasattr(dm, "sgio"):
                del dm.sgio
        else:
            dm.sgio = saved[2]
        dm._has_sgio = saved[3]
        if saved[4] is _MISSING:
            if hasattr(im, "iscsi"):
                del im.iscsi
        else:
            im.iscsi = saved[4]
        im._has_iscsi = saved[5]
        stub_sgio.WORLD = saved[6]
        stub_iscsi.WORLD = saved[7]


_MISSING = object()


class FakeOS:
    """the os module as seen by scsi_device: stat() answers from the ghost file system, everything else is the
    real module (so that a harmless use of os.path & co. is not an artefact of the harness)"""

    __pyvc_trusted__ = True

    def __init__(self, world):
        self._world = world

    def stat(self, path, *a, **k):
        return self._world.stat(path)

    def __getattr__(self, name):
        import os as _os

        return getattr(_os, name)


def make_command():
    """a fresh real command (INQUIRY, 96 bytes data-in) as the object handed to execute()"""
    from pyscsi.pyscsi.scsi_cdb_inquiry import Inquiry

    return Inquiry(C.table("spc").INQUIRY, alloclen=8)


class _DeviceUnit(Unit):
    assumptions = EXTERNAL_ASSUMPTIONS

    def interp_config(self, case):
        from .converter import l0_contracts

        return {"contracts": l0_contracts()}


# ------------------------------------------------------------------------------------------------ C07, SG_IO


class SgioExecuteStatus(_DeviceUnit):
    """SCSIDevice.execute for every status the target may report and every sense buffer"""

    name = "device/SCSIDevice.execute:status"
    properties = ("C07",)

    def functions(self):
        D = devmod().SCSIDevice
        import pyscsi.pyscsi.scsi_sense as ss

        return [D.execute, D.__init__, D.open, D._is_replugged, ss.SCSICheckCondition.__init__]

    def cases(self, tier):
        lens = (18, 8) if tier == "quick" else (18, 8, 14, 32, 252)
        return [{"raw": r, "senselen": n} for r in (False, True) for n in lens]

    def inputs(self, case):
        return {"status": U(8), "sense": Bytes(case["senselen"], mutable=False)}

    def requires(self, case, a):
        # the target sends sense data in one of the four formats SPC defines
        rc = a.sense[0] & 0x7F
        yield V.bor(rc == 0x70, rc == 0x71, rc == 0x72, rc == 0x73)

    def run(self, X, case, a):
        w = World()
        w.present[PATH] = True
        w.inode[PATH] = 11
        w.status = a.status
        w.sense = a.sense
        self.world = w
        with world_installed(w):
            dev = X.call(devmod().SCSIDevice, PATH, False, False)
            cmd = make_command()
            self.cmd = cmd
            self.dev = dev
            return X.call(dev.execute, cmd, en_raw_sense=case["raw"])

    def ensures(self, case, a, out, X):
        yield from status_clauses(self, case, a, out, named_errors=False)

    def canaries(self, case, a, out, X):
        if out.kind == "return":
            yield "canary:returns-only-for-BUSY", a.status == 0x08


def status_clauses(unit, case, a, out, named_errors):
    """C07 for one execute() call: `a.status` is what the target reported, `a.sense` what it sent"""
    w, cmd, dev = unit.world, unit.cmd, unit.dev
    sent = [t for t in w.trace if t[0] in ("sgio.execute", "iscsi.command")]
    yield "C07", "command-sent-exactly-once", len(sent) == 1
    good = a.status == T.STATUS["GOOD"]
    cc = a.status == T.STATUS["CHECK_CONDITION"]
    no_sense = a.sense is None or len(a.sense) == 0
    if no_sense:
        # nothing to attach: a normal return would be indistinguishable from success
        if out.kind == "return":
            yield "C07", "normal-return-only-if-GOOD (no sense available to attach)", good
        else:
            yield "C07", "never-raises-when-GOOD", V.bnot(good)
        return
    if out.kind == "return":
        if case["raw"]:
            # with raw sense explicitly requested a CHECK CONDITION may be reported through cmd.raw_sense_data
            attached = cmd.raw_sense_data is a.sense
            yield "C07", "normal-return-only-if-GOOD (or raw sense attached on CHECK CONDITION)", V.bor(good, V.band(cc, attached))
            yield "C07", "no-sense-attached-when-GOOD", V.bor(V.bnot(good), cmd.raw_sense_data is None)
        else:
            yield "C07", "normal-return-only-if-GOOD", good
        return
    exc = out.exc
    yield "C07", "never-raises-when-GOOD", V.bnot(good)
    is_cc_exc = isinstance(exc, dev.CheckCondition)
    yield "C07", "CheckCondition-raised-only-for-CHECK-CONDITION", V.bor(not is_cc_exc, cc)
    if is_cc_exc:
        kaq = S.key_asc_ascq(list(a.sense))
        if kaq is not None:
            key, asc, ascq = kaq
            yield "C07", "CheckCondition-reports-sense-key", _attr_eq(exc, lambda e: e.data["sense_key"], key)
            yield "C07", "CheckCondition-reports-asc", _attr_eq(exc, lambda e: e.asc, asc)
            yield "C07", "CheckCondition-reports-ascq", _attr_eq(exc, lambda e: e.ascq, ascq)
        if case["raw"]:
            yield "C07", "raw-sense-is-the-unmodified-buffer", cmd.raw_sense_data is a.sense
        else:
            yield "C07", "raw-sense-only-on-request", cmd.raw_sense_data is None
    else:
        # CHECK CONDITION must surface as CheckCondition (raw capture may replace it only by a normal return)
        yield "C07", "CHECK-CONDITION-raises-CheckCondition (got %s)" % type(exc).__name__, V.bnot(cc)
        if named_errors:
            names = {"CONDITION_MET": "ConditionsMet", "BUSY": "BusyStatus", "RESERVATION_CONFLICT": "ReservationConflict",
                     "TASK_SET_FULL": "TaskSetFull", "ACA_ACTIVE": "ACAActive", "TASK_ABORTED": "TaskAborted"}
            for st, cls_name in names.items():
                is_named = isinstance(exc, getattr(dev, cls_name))
                yield "C07", "%s-raised-iff-status-%s" % (cls_name, st), V.bor(V.band(is_named, a.status == T.STATUS[st]),
                                                                               V.band(not is_named, a.status != T.STATUS[st]))


def _attr_eq(exc, getter, expected):
    try:
        return getter(exc) == expected
    except (AttributeError, KeyError):
        return False


# ------------------------------------------------------------------------------------------------ C07, iSCSI


class IscsiExecuteStatus(_DeviceUnit):
    name = "device/ISCSIDevice.execute:status"
    properties = ("C07",)

    def functions(self):
        D = iscsimod().ISCSIDevice
        import pyscsi.pyscsi.scsi_sense as ss

        return [D.execute, D.__init__, D.open, ss.SCSICheckCondition.__init__]

    def cases(self, tier):
        cs = SgioExecuteStatus.cases(self, tier)
        # the target / binding may also offer no sense at all, or an empty buffer (the code tolerates a missing
        # raw_sense attribute): such a command must still not look successful
        cs += [{"raw": r, "senselen": n} for r in (False, True) for n in (0, -1)]
        return cs

    def inputs(self, case):
        if case["senselen"] <= 0:
            return {"status": U(8)}
        return SgioExecuteStatus.inputs(self, case)

    def requires(self, case, a):
        if case["senselen"] <= 0:
            return []
        return SgioExecuteStatus.requires(self, case, a)

    def run(self, X, case, a):
        w = World()
        w.status = a.status
        if case["senselen"] <= 0:
            a["sense"] = None if case["senselen"] < 0 else bytes()
        w.sense = a.sense
        self.world = w
        with world_installed(w):
            dev = X.call(iscsimod().ISCSIDevice, URL, "iqn.2000-01.test:initiator")
            cmd = make_command()
            self.cmd = cmd
            self.dev = dev
            return X.call(dev.execute, cmd, en_raw_sense=case["raw"])

    def ensures(self, case, a, out, X):
        yield from status_clauses(self, case, a, out, named_errors=True)
        # C03, transport side: direction and transfer length handed to the binding
        tasks = self.world.events("iscsi.Task")
        yield "C07", "one-task-built", len(tasks) == 1
        if len(tasks) == 1:
            _, task, cdb, direction, xferlen = tasks[0]
            yield "C07", "task-carries-the-commands-cdb", cdb is self.cmd.cdb

    def canaries(self, case, a, out, X):
        if out.kind == "return":
            yield "canary:returns-only-for-BUSY", a.status == 0x08


# ------------------------------------------------------------------------------------------------ C15


class SgioReplug(_DeviceUnit):
    """one execute() from an arbitrary state satisfying the representation invariant, after an arbitrary
    environment step (node kept / replaced / removed), with close() possibly failing"""

    name = "device/SCSIDevice.execute:replug"
    properties = ("C15",)

    def functions(self):
        D = devmod().SCSIDevice
        return [D.execute, D._is_replugged, D.open, D.close, D.__init__, devmod().get_inode]

    def cases(self, tier):
        return [{"detect": d, "readwrite": rw} for d in (True, False) for rw in (False, True)]

    def inputs(self, case):
        return {"ino0": U(32), "ino1": U(32), "present": Flag(), "close_fails": Flag(), "status": U(8)}

    def run(self, X, case, a):
        w = World()
        self.world = w
        w.present[PATH] = True
        w.inode[PATH] = a.ino0
        w.sense = bytes([0x70, 0, 5, 0, 0, 0, 0, 10, 0, 0, 0, 0, 0x24, 0, 0, 0, 0, 0])
        with world_installed(w):
            dev = X.call(devmod().SCSIDevice, PATH, case["readwrite"], case["detect"])
            self.dev = dev
            self.h0 = dev._file
            self.open_trace = list(w.trace)
            del w.trace[:]
            # ---- environment step
            w.present[PATH] = a.present
            w.inode[PATH] = a.ino1
            w.close_failure = a.close_fails
            w.status = a.status
            cmd = make_command()
            return X.call(dev.execute, cmd)

    def ensures(self, case, a, out, X):
        w, dev, h0 = self.world, self.dev, self.h0
        # --- the open performed by __init__
        opens = [t for t in self.open_trace if t[0] == "open"]
        yield "C15", "init:one-open", len(opens) == 1
        if len(opens) == 1:
            yield "C15", "init:opened-on-the-requested-path", opens[0][1] == PATH
            yield "C15", "init:mode-w+b-iff-readwrite", opens[0][2] == ("w+b" if case["readwrite"] else "rb")
        execs = w.events("sgio.execute")
        closes = w.events("close")
        reopens = w.events("open")
        replaced = a.ino1 != a.ino0
        yield "C15", "at-most-one-command-sent", len(execs) <= 1
        if case["detect"]:
            if execs:
                h = execs[0][1]
                yield "C15", "command-goes-through-a-handle-on-the-current-node", V.band(a.present, h.ino == a.ino1)
                yield "C15", "handle-used-is-open", h.close_calls == 0
                yield "C15", "handle-used-is-the-devices-current-handle", h is dev._file
                if h is not h0:
                    yield "C15", "stale-handle-closed-before-the-command", h0.close_calls == 1 and w.trace.index(closes[0]) < w.trace.index(execs[0])
                    yield "C15", "fresh-handle-opened-before-the-command", len(reopens) == 1 and w.trace.index(reopens[0]) < w.trace.index(execs[0])
                    yield "C15", "reopen-keeps-mode", reopens[0][2] == ("w+b" if case["readwrite"] else "rb")
                else:
                    yield "C15", "original-handle-kept-only-if-node-unchanged", V.bnot(replaced)
            else:
                yield "C15", "no-command-only-if-node-vanished-or-close-failed", V.bor(V.bnot(a.present), V.band(replaced, a.close_fails))
                yield "C15", "error-reported-when-nothing-was-sent", out.kind == "raise"
            # vanished node: reported as an error, never silently using the old handle
            yield "C15", "vanished-node-is-an-error", V.bor(a.present, out.kind == "raise" and not execs)
            # replaced node and close failure: the fresh handle is nevertheless installed
            if out.kind == "raise" and not execs:
                yield "C15", "after-close-failure-a-fresh-handle-is-installed", V.bor(V.bnot(V.band(a.present, replaced, a.close_fails)),
                                                                                      dev._file is not h0 and dev._file.close_calls == 0)
        else:
            yield "C15", "detection-off:same-handle", len(execs) == 1 and execs[0][1] is h0
            yield "C15", "detection-off:no-reopen", not reopens and not closes
        # representation invariant on exit: the current handle was opened on the recorded inode; every superseded
        # handle is closed exactly once
        cur = dev._file
        yield "C15", "invariant:recorded-inode-is-the-handles", cur.ino == dev._ino
        for h in w.handles:
            if h is not cur:
                yield "C15", "invariant:superseded-handle-closed-once", h.close_calls == 1
            else:
                yield "C15", "invariant:current-handle-open", h.close_calls == 0

    def canaries(self, case, a, out, X):
        execs = self.world.events("sgio.execute")
        if case["detect"] and execs and execs[0][1] is not self.h0:
            yield "canary:reopened-although-node-unchanged", a.ino1 == a.ino0


class SgioRelease(_DeviceUnit):
    """close(), and leaving a with block normally or by exception, release the OS handle exactly once"""

    name = "device/SCSIDevice:release"
    properties = ("C15",)

    def functions(self):
        D = devmod().SCSIDevice
        from pyscsi.pyscsi.scsi import SCSI

        return [D.close, D.__enter__, D.__exit__, SCSI.__enter__, SCSI.__exit__]

    def cases(self, tier):
        return [{"via": v, "how": h} for v in ("device", "facade") for h in ("close", "with-normal", "with-exception")]

    def inputs(self, case):
        return {"ino0": U(32)}

    def run(self, X, case, a):
        from pyscsi.pyscsi.scsi import SCSI

        w = World()
        self.world = w
        w.present[PATH] = True
        w.inode[PATH] = a.ino0
        with world_installed(w):
            dev = X.call(devmod().SCSIDevice, PATH)
            self.h0 = dev._file
            obj = dev
            if case["via"] == "facade":
                obj = object.__new__(SCSI)
                obj.device = dev
                obj._blocksize = 0
            if case["how"] == "close":
                X.call(dev.close)
                return None
            ctx = X.call(obj.__enter__)
            if case["how"] == "with-normal":
                X.call(obj.__exit__, None, None, None)
            else:
                ex = RuntimeError("body failed")
                r = X.call(obj.__exit__, RuntimeError, ex, None)
                return ("exit-returned", r, ctx is obj)
            return ("exit-returned", None, ctx is obj)

    def ensures(self, case, a, out, X):
        yield "C15", "release-returns", out.kind == "return"
        yield "C15", "exactly-one-close-on-the-handle", self.h0.close_calls == 1 and len(self.world.events("close")) == 1
        if out.kind == "return" and out.value is not None:
            yield "C15", "__enter__-returns-the-object", out.value[2]
            if case["how"] == "with-exception":
                yield "C15", "__exit__-does-not-swallow-the-exception", not out.value[1]


class IscsiRelease(_DeviceUnit):
    name = "device/ISCSIDevice:release"
    properties = ("C15",)

    def functions(self):
        D = iscsimod().ISCSIDevice
        return [D.close, D.__enter__, D.__exit__]

    def cases(self, tier):
        return [{"how": h} for h in ("close", "with-normal", "with-exception")]

    def run(self, X, case, a):
        w = World()
        self.world = w
        with world_installed(w):
            dev = X.call(iscsimod().ISCSIDevice, URL, "iqn.2000-01.test:initiator")
            if case["how"] == "close":
                X.call(dev.close)
                return None
            ctx = X.call(dev.__enter__)
            if case["how"] == "with-normal":
                return ("exit-returned", X.call(dev.__exit__, None, None, None), ctx is dev)
            return ("exit-returned", X.call(dev.__exit__, RuntimeError, RuntimeError("x"), None), ctx is dev)

    def ensures(self, case, a, out, X):
        yield "C15", "release-returns", out.kind == "return"
        yield "C15", "exactly-one-disconnect", len(self.world.events("iscsi.disconnect")) == 1
        if out.kind == "return" and out.value is not None:
            yield "C15", "__enter__-returns-the-object", out.value[2]
            yield "C15", "__exit__-does-not-swallow-the-exception", not out.value[1]


register(SgioExecuteStatus())
register(IscsiExecuteStatus())
register(SgioReplug())
register(SgioRelease())
register(IscsiRelease())

# contracts.opcodes -- C14: operation codes, service actions, status codes are the T10 assignments; the CDB
# length derived from an operation code is the one its group prescribes (SCSICommand.init_cdb).
import re

from pyvc import values as V
from pyvc.unit import Unit, U, register, Undecided
from spec import t10_opcodes as T
from . import common as C


class OpcodeTableUnit(Unit):
    """one ground obligation per entry of a command-set table, read from the live Enum objects"""

    name = "tables/opcodes"
    properties = ("C14",)

    def functions(self):
        from pyscsi.utils.enum import Enum
        from pyscsi.pyscsi.scsi_opcode import OpCode

        return [Enum.__new__, Enum.keys.fget, OpCode.__init__, OpCode.value.fget, OpCode.serviceaction.fget]

    def cases(self, tier):
        return [{"set": s} for s in C.SETS]

    def run(self, X, case, a):
        t = C.table(case["set"])
        out = []
        for k in t.keys:
            op = getattr(t, k)
            sa = op.serviceaction
            out.append((k, op.value, [(n, getattr(sa, n)) for n in sa.keys]))
        # "exposes under a standard command name": what a look-up BY NAME yields for every standard name, listed by
        # this set or not (a name the set does not list must not resolve to some other entry)
        # names map to values and back: the reverse look-up of every listed entry returns that entry's own name
        self.reverse = [(k, t[getattr(t, k)]) for k in t.keys]
        self.by_name = []
        listed = set(t.keys)
        for name in sorted(T.OPCODES):
            try:
                op = getattr(t, name)
            except AttributeError:
                continue
            self.by_name.append((name, getattr(op, "value", op), name in listed))
        return out

    def ensures(self, case, a, out, X):
        if out.kind != "return":
            yield "C14", "table-readable", False
            return
        yield "C14", "table-nonempty", len(out.value) > 0
        for k, back in self.reverse:
            yield "C14", "reverse-lookup-of-entry-returns-its-own-name:%s" % k, back == k
        for name, v, listed in self.by_name:
            if not listed:
                yield "C14", "name-not-listed-by-this-set-resolves-to-the-T10-code-or-not-at-all:%s==0x%02X" % (name, T.OPCODES[name]), v == T.OPCODES[name]
        for k, v, sas in out.value:
            m = re.match(T.GENERIC_OPCODE_NAME, k)
            if m:
                yield "C14", "opcode:%s==0x%s" % (k, m.group(2)), v == int(m.group(2), 16)
            elif k in T.OPCODES:
                yield "C14", "opcode:%s==0x%02X" % (k, T.OPCODES[k]), v == T.OPCODES[k]
            else:
                yield "C14", "opcode:%s" % k, Undecided("UNSPECIFIED: the T10 reference table has no entry named %s" % k)
            yield "C14", "opcode-is-byte:%s" % k, isinstance(v, int) and 0 <= v <= 0xFF
            for n, sv in sas:
                exp = T.service_action_value(v, n)
                if exp is not None:
                    yield "C14", "service-action:%s/%s==0x%02X" % (k, n, exp), sv == exp
                else:
                    anyv = T.any_service_action_value(n)
                    if anyv:
                        yield "C14", "service-action:%s/%s in %s" % (k, n, sorted(anyv)), sv in anyv
                    else:
                        yield "C14", "service-action:%s/%s" % (k, n), Undecided("UNSPECIFIED service action name %s" % n)


class CrossSetUnit(Unit):
    """the same name has the same value in every command set that lists it"""

    name = "tables/cross-set"
    properties = ("C14",)

    def run(self, X, case, a):
        d = {}
        for s in C.SETS:
            t = C.table(s)
            for k in t.keys:
                op = getattr(t, k)
                d.setdefault(k, []).append((s, op.value, {n: getattr(op.serviceaction, n) for n in op.serviceaction.keys}))
        return d

    def ensures(self, case, a, out, X):
        if out.kind != "return":
            yield "C14", "tables-readable", False
            return
        for k, lst in sorted(out.value.items()):
            if len(lst) < 2:
                continue
            s0, v0, sa0 = lst[0]
            for s, v, sa in lst[1:]:
                yield "C14", "same-value:%s:%s==%s" % (k, s0, s), v == v0
                for n in set(sa) & set(sa0):
                    yield "C14", "same-service-action:%s/%s:%s==%s" % (k, n, s0, s), sa[n] == sa0[n]


class StatusUnit(Unit):
    name = "tables/status"
    properties = ("C14",)

    def run(self, X, case, a):
        st = C.enum_command().SCSI_STATUS
        return [(k, getattr(st, k)) for k in st.keys]

    def ensures(self, case, a, out, X):
        if out.kind != "return":
            yield "C14", "status-table-readable", False
            return
        names = [k for k, _ in out.value]
        for req in ("GOOD", "CHECK_CONDITION", "BUSY", "RESERVATION_CONFLICT", "TASK_SET_FULL", "ACA_ACTIVE", "TASK_ABORTED"):
            yield "C14", "status-present:%s" % req, req in names
        for k, v in out.value:
            if k in T.STATUS:
                yield "C14", "status:%s==0x%02X" % (k, T.STATUS[k]), v == T.STATUS[k]
            elif k in T.NON_STANDARD_STATUS:
                # a host-transport pseudo status: must not collide with a SAM status code
                yield "C14", "pseudo-status:%s-not-a-SAM-code" % k, v not in set(T.STATUS.values())
            else:
                yield "C14", "status:%s" % k, Undecided("UNSPECIFIED status name %s" % k)


class InitCdbUnit(Unit):
    """SCSICommand.init_cdb for every integer operation code value"""

    name = "command/init_cdb"
    properties = ("C14", "C17")

    def functions(self):
        from pyscsi.pyscsi.scsi_command import SCSICommand

        return [SCSICommand.init_cdb]

    def inputs(self, case):
        return {"opcode": U(lo=-(1 << 64), hi=(1 << 64))}

    def run(self, X, case, a):
        from pyscsi.pyscsi.scsi_command import SCSICommand
        from pyscsi.pyscsi.scsi_opcode import OpCode

        op = OpCode("X", 0, {})
        op._code = a.opcode
        return X.call(SCSICommand.init_cdb, op)

    def ensures(self, case, a, out, X):
        v = a.opcode
        g6 = V.band(v >= 0x00, v <= 0x1F)
        g10 = V.band(v >= 0x20, v <= 0x5F)
        g16 = V.band(v >= 0x80, v <= 0x9F)
        g12 = V.band(v >= 0xA0, v <= 0xBF)
        fixed = V.bor(g6, g10, g16, g12)
        for p in ("C14", "C17"):
            if out.kind == "raise":
                yield p, "raises-OpcodeException-only (got %s)" % type(out.exc).__name__, out.raised("OpcodeException")
                yield p, "refused-only-outside-fixed-length-groups", V.bnot(fixed)
            else:
                cdb = out.value
                yield p, "returns-only-for-fixed-length-groups", fixed
                ok = isinstance(cdb, (bytearray, V.SBytes))
                yield p, "cdb-is-bytearray", ok
                if ok:
                    n = len(cdb)
                    yield p, "length-is-6-10-12-16", n in (6, 10, 12, 16)
                    yield p, "length-by-group", {6: g6, 10: g10, 16: g16, 12: g12}.get(n, False)
                    yield p, "all-zero", all((not isinstance(c, V.SInt)) and c == 0 for c in cdb)

    def canaries(self, case, a, out, X):
        if out.kind == "return":
            yield "canary:accepted-opcode-is-above-FF", a.opcode > 0xFF


class MarshallAfterUse(Unit):
    """<class>.marshall_cdb / build_cdb for every operation code byte, on a class that has already marshalled a valid
    CDB (the length and the refusal depend on THIS call's operation code, not on what the class did before)"""

    name = "command/marshall_cdb-after-use"
    properties = ("C14", "C17", "C09")

    CLASSES = (("scsi_cdb_inquiry", "Inquiry", 0x12), ("scsi_cdb_read10", "Read10", 0x28), ("scsi_cdb_read12", "Read12", 0xA8), ("scsi_cdb_read16", "Read16", 0x88))

    def functions(self):
        from pyscsi.pyscsi.scsi_command import SCSICommand

        return [SCSICommand.marshall_cdb, SCSICommand.init_cdb]

    def cases(self, tier):
        return [{"cls": c[1], "via": via} for c in self.CLASSES for via in ("marshall_cdb", "build_cdb")]

    def inputs(self, case):
        return {"opcode": U(8)}

    def run(self, X, case, a):
        import importlib

        mod, name, valid = [c for c in self.CLASSES if c[1] == case["cls"]][0]
        K = getattr(importlib.import_module("pyscsi.pyscsi." + mod), name)
        first = X.call(K.marshall_cdb, {"opcode": valid})
        self.first_len = len(first)
        if case["via"] == "marshall_cdb":
            return X.call(K.marshall_cdb, {"opcode": a.opcode})
        obj = object.__new__(K)
        return X.call(obj.build_cdb, opcode=a.opcode)

    def ensures(self, case, a, out, X):
        v = a.opcode
        g6 = V.band(v >= 0x00, v <= 0x1F)
        g10 = V.band(v >= 0x20, v <= 0x5F)
        g16 = V.band(v >= 0x80, v <= 0x9F)
        g12 = V.band(v >= 0xA0, v <= 0xBF)
        fixed = V.bor(g6, g10, g16, g12)
        for p in ("C14", "C17"):
            if out.kind == "raise":
                yield p, "raises-OpcodeException-only (got %s)" % type(out.exc).__name__, out.raised("OpcodeException")
                yield p, "refused-only-outside-fixed-length-groups", V.bnot(fixed)
            else:
                cdb = out.value
                yield p, "returns-only-for-fixed-length-groups", fixed
                ok = isinstance(cdb, (bytearray, V.SBytes))
                yield p, "cdb-is-bytearray", ok
                if ok:
                    n = len(cdb)
                    yield p, "length-by-the-group-of-this-operation-code", {6: g6, 10: g10, 16: g16, 12: g12}.get(n, False)
                    if n:
                        yield p, "byte0-is-the-operation-code", cdb[0] == v

    def canaries(self, case, a, out, X):
        if out.kind == "return":
            yield "canary:accepted-opcode-is-C0-or-above", a.opcode >= 0xC0


register(OpcodeTableUnit())
register(CrossSetUnit())
register(StatusUnit())
register(InitCdbUnit())
register(MarshallAfterUse())

# contracts.readwrite -- C12: data written through the library is read back intact from a conformant target,
# identically over both transports.
#
# (1) end-to-end units: the real facade over the real SCSIDevice / ISCSIDevice, the stub binding hands every
#     command to spec.block_target.BlockTarget (which decodes with the standard's layouts).  LBAs (64 bit for the
#     16-byte forms), flag bits, payload bytes and the initial disk are symbolic; transfer lengths and the block
#     size are small concrete values (the per-block loops of the target are executed) -> labelled bounded.
# (2) the unbounded part is a lemma over contracts: C01/C03/C13/C07 give, for all lengths and block sizes, that the
#     target receives exactly (op, lba, n, flags), the caller's data and a data-in buffer of n*blocksize bytes;
#     the array lemmas below give read-after-write and preservation for every n; induction over the history
#     composes them (stated in DESIGN.md 6 C12).
import importlib

from pyvc import values as V
from pyvc.unit import Unit, U, Bytes, register
from spec.block_target import BlockTarget
from spec.stubs.world import World
from . import common as C
from .device import world_installed, devmod, iscsimod, PATH, URL, EXTERNAL_ASSUMPTIONS
from .facade import scsimod


class TargetWorld(World):
    """the stub bindings deliver every command to the abstract target and report GOOD"""

    __pyvc_trusted__ = True

    def __init__(self, target):
        World.__init__(self)
        self.target = target

    def sgio_execute(self, file, cdb, dataout, datain):
        self.trace.append(("sgio.execute", file, cdb, dataout, datain, None))
        self.target.execute(cdb, dataout, datain)

    def iscsi_command(self, context, lun, task, dataout, datain):
        self.trace.append(("iscsi.command", context, lun, task, dataout, datain))
        self.target.execute(task.cdb, dataout, datain)
        task.status = 0


SCENARIOS = {
    # name: list of steps; each step (method, lba-variable, n, flag kwargs)
    "w10-r10": [("write10", "A", 2), ("read10", "A", 2)],
    "w12-r12": [("write12", "A", 1), ("read12", "A", 1)],
    "w16-r16": [("write16", "A", 2), ("read16", "A", 2)],
    "w16-w10-r16": [("write16", "A", 2), ("write10", "B", 1), ("read16", "A", 2), ("read10", "B", 1)],
    "ws10-r12": [("writesame10", "A", 2), ("read12", "A", 2)],
    "ws16-sync-r16": [("writesame16", "A", 3), ("synchronizecache16", "A", 3), ("read16", "A", 3)],
    "w10-ws16ndob-r10": [("write10", "A", 2), ("writesame16ndob", "B", 1), ("synchronizecache10", "A", 2), ("read10", "A", 2)],
    "geometry": [("readcapacity10",), ("readcapacity16",), ("inquiry",)],
}
WIDE = {"write16", "read16", "writesame16", "writesame16ndob", "synchronizecache16"}


class RoundTrip(Unit):
    name = "rw/roundtrip"
    properties = ("C12",)
    level = "bounded"
    bound_note = ("end-to-end histories of 2..4 commands with transfer lengths 1..3 and block sizes 1, 2 (quick) / 1, 2, 4, 8 (thorough); LBAs, flags, "
                  "payloads and the initial disk are unbounded (symbolic); arbitrary lengths/block sizes/histories follow from the lemma units and C01/C03/C13")
    assumptions = EXTERNAL_ASSUMPTIONS + ("C12: the conformant target is spec/block_target.py; the bindings deliver CDB and buffers unmodified",)

    def functions(self):
        S = scsimod().SCSI
        fs = [getattr(S, m) for m in ("write10", "write12", "write16", "writesame10", "writesame16", "read10", "read12", "read16",
                                      "synchronizecache10", "synchronizecache16", "readcapacity10", "readcapacity16", "inquiry", "execute")]
        return fs + [devmod().SCSIDevice.execute, iscsimod().ISCSIDevice.execute]

    def cases(self, tier):
        bss = (1, 2) if tier == "quick" else (1, 2, 4, 8)
        return [{"transport": t, "scenario": s, "bs": bs} for t in ("sgio", "iscsi") for s in sorted(SCENARIOS) for bs in (bss if s != "geometry" else (2,))]

    def inputs(self, case):
        d = {}
        steps = SCENARIOS[case["scenario"]]
        wide = any(s[0] in WIDE for s in steps)
        for var in sorted({s[1] for s in steps if len(s) > 1}):
            only_narrow = all(s[0] not in WIDE for s in steps if len(s) > 1 and s[1] == var)
            all_wide = all(s[0] in WIDE for s in steps if len(s) > 1 and s[1] == var)
            d["lba" + var] = U(64) if all_wide else U(32)
        for i, s in enumerate(steps):
            if s[0].startswith("write") and s[0] != "writesame16ndob":
                n = s[2] if not s[0].startswith("writesame") else 1
                d["data%d" % i] = Bytes(n * case["bs"])
            if s[0].startswith(("write", "read")) and len(s) > 1:
                d["group%d" % i] = U(5)
                d["fua%d" % i] = U(1)
        d["seed"] = U(16)
        d["capacity"] = U(lo=1, hi=(1 << 40))
        return d

    def requires(self, case, a):
        for s in SCENARIOS[case["scenario"]]:
            if len(s) > 1:
                # the addressed blocks exist on the medium (no wrap-around of the LBA range)
                top = (1 << 64) if s[0] in WIDE else (1 << 32)
                yield a["lba" + s[1]] + s[2] <= top

    def interp_config(self, case):
        from .converter import l0_contracts

        return {"contracts": l0_contracts()}

    def run(self, X, case, a):
        S = scsimod().SCSI
        bs = case["bs"]
        target = BlockTarget(bs, a.capacity, X.symbolic, seed=a.seed)
        ref = BlockTarget(bs, a.capacity, X.symbolic, seed=a.seed).disk  # reference disk driven by the caller's arguments
        if X.symbolic:
            ref.arr = target.disk.arr
        w = TargetWorld(target)
        w.present[PATH] = True
        w.inode[PATH] = 3
        results = []
        with world_installed(w):
            if case["transport"] == "sgio":
                dev = X.call(devmod().SCSIDevice, PATH, True)
            else:
                dev = X.call(iscsimod().ISCSIDevice, URL, "iqn.2000-01.test:i")
            s = object.__new__(S)
            s.device = dev
            s._blocksize = bs
            dev.opcodes = C.table("sbc")
            for i, step in enumerate(SCENARIOS[case["scenario"]]):
                m = step[0]
                if m in ("readcapacity10", "readcapacity16", "inquiry"):
                    cmd = X.call(getattr(s, m))
                    results.append((m, cmd.result))
                    continue
                lba, n = a["lba" + step[1]], step[2]
                if m.startswith("writesame"):
                    ndob = m.endswith("ndob")
                    meth = "writesame16" if ndob else m
                    kw = {"group": a["group%d" % i]}
                    if ndob:
                        kw["ndob"] = 1
                        X.call(getattr(s, meth), lba, n, None, **kw)
                        blk = 0
                    else:
                        data = a["data%d" % i]
                        X.call(getattr(s, meth), lba, n, data, **kw)
                        blk = V.be_int(list(data))
                    for j in range(n):
                        ref.set(lba + j, blk)
                elif m.startswith("write"):
                    data = a["data%d" % i]
                    X.call(getattr(s, m), lba, n, data, fua=a["fua%d" % i], group=a["group%d" % i])
                    cells = list(data)
                    for j in range(n):
                        ref.set(lba + j, V.be_int(cells[j * bs:(j + 1) * bs]))
                elif m.startswith("read"):
                    cmd = X.call(getattr(s, m), lba, n, fua=a["fua%d" % i], group=a["group%d" % i])
                    expected = []
                    for j in range(n):
                        expected.extend(V.be_bytes(ref.get(lba + j), bs))
                    results.append((m, cmd.datain, expected))
                else:
                    X.call(getattr(s, m), lba, n)
        self.target = target
        return results

    def ensures(self, case, a, out, X):
        if out.kind != "return":
            yield "C12", "history-completes (raised %s)" % type(out.exc).__name__, False
            return
        for k, r in enumerate(out.value):
            if r[0] in ("read10", "read12", "read16"):
                _, got, exp = r
                yield "C12", "step%d:%s-buffer-length" % (k, r[0]), V.buf_len(got) == len(exp)
                if V.buf_len(got) == len(exp):
                    got = list(got)
                    for i in range(len(exp)):
                        yield "C12", "step%d:%s-returns-the-data-last-written:byte%d" % (k, r[0], i), got[i] == exp[i]
            elif r[0] == "readcapacity10":
                last = a.capacity - 1
                yield "C12", "readcapacity10-block-length", r[1]["block_length"] == case["bs"]
                yield "C12", "readcapacity10-last-lba", r[1]["returned_lba"] == V.ite(last < 0xFFFFFFFF, last, 0xFFFFFFFF)
            elif r[0] == "readcapacity16":
                yield "C12", "readcapacity16-block-length", r[1]["block_length"] == case["bs"]
                yield "C12", "readcapacity16-last-lba", r[1]["returned_lba"] == a.capacity - 1
            elif r[0] == "inquiry":
                yield "C12", "inquiry-device-type", r[1]["peripheral_device_type"] == 0
                yield "C12", "inquiry-vendor", V.bytes_eq(r[1]["t10_vendor_identification"], b"VERIF   ")
                yield "C12", "inquiry-product", V.bytes_eq(r[1]["product_identification"], b"BLOCK TARGET    ")

    def canaries(self, case, a, out, X):
        if out.kind == "return":
            for r in out.value:
                if r[0].startswith("read") and len(r) == 3 and V.buf_len(r[1]) == len(r[2]) and len(r[2]):
                    yield "canary:read-data-off-by-one", list(r[1])[0] == r[2][0] + 1
                    return


PER_CALL = {
    # facade method: (layout key, count parameter)
    "write10": ("Write10", "tl"), "write12": ("Write12", "tl"), "write16": ("Write16", "tl"),
    "read10": ("Read10", "tl"), "read12": ("Read12", "tl"), "read16": ("Read16", "tl"),
    "writesame10": ("WriteSame10", "nb"), "writesame16": ("WriteSame16", "nb"),
    "synchronizecache10": ("SynchronizeCache10", "numblks"), "synchronizecache16": ("SynchronizeCache16", "numblks"),
}


class PerCall(Unit):
    """the per-call facts the C12 lemma rests on, through the real transports, for ALL lengths and block sizes: the
    binding receives exactly one command whose CDB the standard's decoder maps to the caller's (lba, count, flags),
    the caller's data object as data-out, and as data-in a buffer of count x block size bytes that is the very
    object the caller gets back"""

    name = "rw/per-call"
    properties = ("C12",)
    assumptions = EXTERNAL_ASSUMPTIONS

    def functions(self):
        S = scsimod().SCSI
        return [getattr(S, m) for m in PER_CALL] + [devmod().SCSIDevice.execute, iscsimod().ISCSIDevice.execute]

    def cases(self, tier):
        return [{"method": m, "transport": t} for m in sorted(PER_CALL) for t in ("sgio", "iscsi")]

    def interp_config(self, case):
        from .converter import l0_contracts

        return {"contracts": l0_contracts()}

    def inputs(self, case):
        from spec import cdb_layouts as L

        lay = L.CDB[PER_CALL[case["method"]][0]]
        d = {p: U(f.width) for p, f in lay.fields.items()}
        d["blocksize"] = U(lo=1, hi=(1 << 16))
        return d

    def run(self, X, case, a):
        from spec import cdb_layouts as L

        S = scsimod().SCSI
        w = World()
        w.present[PATH] = True
        w.inode[PATH] = 5
        self.world = w
        key, cnt = PER_CALL[case["method"]]
        lay = L.CDB[key]
        self.data = bytearray(b"\x11" * 5)
        with world_installed(w):
            dev = X.call(devmod().SCSIDevice, PATH, True) if case["transport"] == "sgio" else X.call(iscsimod().ISCSIDevice, URL, "iqn.2000-01.test:i")
            s = object.__new__(S)
            s.device = dev
            s._blocksize = a.blocksize
            dev.opcodes = C.table("sbc")
            del w.trace[:]
            kw = {p: a[p] for p in lay.fields if p not in ("lba", cnt)}
            m = getattr(s, case["method"])
            if case["method"].startswith("write"):
                return X.call(m, a.lba, a[cnt], self.data, **kw)
            return X.call(m, a.lba, a[cnt], **kw)

    def ensures(self, case, a, out, X):
        from spec import cdb_layouts as L

        key, cnt = PER_CALL[case["method"]]
        lay = L.CDB[key]
        if out.kind != "return":
            yield "C12", "command-completes (raised %s)" % type(out.exc).__name__, False
            return
        cmd = out.value
        sent = [t for t in self.world.trace if t[0] in ("sgio.execute", "iscsi.command")]
        yield "C12", "binding-receives-exactly-one-command", len(sent) == 1
        if len(sent) != 1:
            return
        if sent[0][0] == "sgio.execute":
            _, _, cdb, dout, din, _ = sent[0]
        else:
            _, _, _, task, dout, din = sent[0]
            cdb = task.cdb
        ok = isinstance(cdb, (bytearray, V.SBytes)) and len(cdb) == lay.length
        yield "C12", "cdb-has-the-length-of-its-group", ok
        if not ok:
            return
        yield "C12", "cdb-opcode", cdb[0] == lay.opcode
        for p, f in lay.fields.items():
            yield "C12", "target-decodes-%s-as-given (%s)" % (p, f.describe()), f.decode(cdb) == a[p]
        for i in range(lay.length):
            mask = lay.reserved_mask(i)
            if mask:
                yield "C12", "reserved-bits-zero:byte%d" % i, (cdb[i] & mask) == 0
        yield "C12", "buffers-handed-to-the-binding-are-the-commands", dout is cmd.dataout and din is cmd.datain
        if case["method"].startswith("read"):
            yield "C12", "data-in-buffer-is-count-x-blocksize-bytes", V.buf_len(din) == a[cnt] * a.blocksize
            yield "C12", "no-data-out", V.buf_len(dout) == 0
        elif case["method"].startswith("write"):
            ndob = a["ndob"] if "ndob" in a else 0
            yield "C12", "data-out-is-the-callers-object", V.bor(ndob != 0, dout is self.data)
            yield "C12", "no-data-in", V.buf_len(din) == 0
        else:
            yield "C12", "no-data-phase", V.band(V.buf_len(din) == 0, V.buf_len(dout) == 0)
        if sent[0][0] == "iscsi.command":
            tasks = self.world.events("iscsi.Task")
            if len(tasks) == 1:
                _, task, tcdb, direction, xferlen = tasks[0]
                # what the target is told about the data phase: the direction and exactly the length of the buffer
                nout, nin = V.buf_len(dout), V.buf_len(din)
                yield "C12", "iscsi-transfer-direction", direction == V.ite(nout != 0, 2, V.ite(nin != 0, 1, 0))
                yield "C12", "iscsi-transfer-length", xferlen == V.ite(nout != 0, nout, nin)


class ArrayLemmas(Unit):
    """read-after-write, preservation and WRITE SAME over the abstract disk for every transfer length (z3 arrays,
    skolem index instead of a quantifier)"""

    name = "rw/lemmas"
    properties = ("C12",)

    def inputs(self, case):
        return {"lba": U(64), "n": U(32), "i": U(32), "x": U(64)}

    def requires(self, case, a):
        yield a.lba + a.n <= (1 << 64)

    def run(self, X, case, a):
        return None

    def ensures(self, case, a, out, X):
        if not X.symbolic:
            yield "C12", "lemma-evaluated-symbolically-only", True
            return
        import z3

        BV64 = z3.BitVecSort(64)
        disk = z3.Array("disk0", BV64, z3.BitVecSort(64))
        payload = z3.Array("payload", BV64, z3.BitVecSort(64))  # index = block number within the transfer
        same = z3.BitVec("same_block", 64)
        lba, n, i, x = (z3.Extract(63, 0, V.to_bv(v)) for v in (a.lba, a.n, a.i, a.x))
        inside = lambda y: z3.And(z3.UGE(y, lba), z3.ULT(y - lba, n))
        after_write = lambda y: z3.If(inside(y), z3.Select(payload, y - lba), z3.Select(disk, y))
        after_same = lambda y: z3.If(inside(y), same, z3.Select(disk, y))
        read = lambda f, k: f(lba + k)
        yield "C12", "lemma:read-after-write (any n, any block i<n)", V.SBool(z3.Implies(z3.ULT(i, n), read(after_write, i) == z3.Select(payload, i)))
        yield "C12", "lemma:blocks-outside-the-write-are-preserved", V.SBool(z3.Implies(z3.Not(inside(x)), after_write(x) == z3.Select(disk, x)))
        yield "C12", "lemma:write-same-stores-one-block-n-times", V.SBool(z3.Implies(z3.ULT(i, n), read(after_same, i) == same))
        yield "C12", "lemma:write-same-preserves-the-rest", V.SBool(z3.Implies(z3.Not(inside(x)), after_same(x) == z3.Select(disk, x)))

    def canaries(self, case, a, out, X):
        if X.symbolic:
            import z3

            yield "canary:every-index-lies-inside-the-transfer", a.i < a.n


register(PerCall())
register(RoundTrip())
register(ArrayLemmas())

# contracts.dataout -- C05: parameter lists sent to the device have the standard layout and honest lengths
# (MODE SELECT 6/10, PERSISTENT RESERVE OUT basic / SPEC_I_PT / REGISTER AND MOVE with TransportIDs, EXTENDED COPY
# LID1 / LID4); the CDB clauses of these structured commands (C01, C03) and their refusals (C17).
import importlib
import inspect

from pyvc import values as V
from pyvc.unit import Unit, U, Bytes, register
from spec import cdb_layouts as L
from spec import data_formats as D
from spec.formats import Blob
from . import common as C
from .cdb_commands import sets_offering
from .datain import cls_of, field_inputs, field_values, ISCSI_NAMES


def cdb_clauses(lay, cdb, fields, prop="C01"):
    """the C01 clauses of a structured command: length, opcode, service action, argument fields, reserved bits"""
    yield prop, "cdb-is-byte-buffer", isinstance(cdb, (bytearray, V.SBytes)) and C.is_byte_cells(cdb)
    if not isinstance(cdb, (bytearray, V.SBytes)):
        return
    yield prop, "cdb-length", len(cdb) == lay.length
    if len(cdb) != lay.length:
        return
    yield prop, "opcode", cdb[0] == lay.opcode
    if lay.sa is not None:
        yield prop, "service-action", lay.sa_field.decode(cdb) == lay.sa
    for p, v in fields.items():
        yield prop, "field:%s (%s)" % (p, lay.fields[p].describe()), lay.fields[p].decode(cdb) == v
    for i in range(lay.length):
        m = lay.reserved_mask(i)
        if m:
            yield prop, "reserved-bits-zero:byte%d" % i, (cdb[i] & m) == 0


def list_clauses(cmd, lay, expected):
    """C05 / C03: the data-out buffer is the expected list, the CDB's PARAMETER LIST LENGTH is its length"""
    dout = cmd.dataout
    yield "C05", "dataout-is-byte-buffer", isinstance(dout, (bytearray, bytes, V.SBytes))
    yield "C03", "dataout-is-buffer", isinstance(dout, (bytearray, bytes, V.SBytes))
    if not isinstance(dout, (bytearray, bytes, V.SBytes)):
        return
    pll = lay.derived["parameter_list_length"].decode(cmd.cdb)
    yield "C05", "cdb-parameter-list-length==len(dataout)", pll == len(dout)
    yield "C03", "parameter-list-length==len(dataout)", pll == len(dout)
    yield "C03", "datain-empty", V.buf_len(cmd.datain) == 0
    yield "C05", "parameter-list-length-as-the-standard-prescribes", len(dout) == len(expected)
    if len(dout) == len(expected):
        got = list(dout)
        for i, e in enumerate(expected):
            yield "C05", "parameter-list:byte%d" % i, got[i] == e


class _ListUnit(Unit):
    properties = ("C05", "C01", "C03", "C17", "C09")
    frame_check = True
    level = "bounded"
    bound_note = "list shapes (number and kinds of pages / TransportIDs / CSCD and segment descriptors) are enumerated: 1-2 mode pages, 0-3 TransportIDs, 0-2 CSCDs, 0-3 segments; all numeric values symbolic"

    def interp_config(self, case):
        from .converter import l0_contracts

        return {"contracts": l0_contracts()}

    def opcode_obj(self, case):
        return C.find_opcode(case["set"], tuple(case["how"]))

    def call_twice(self, X, thunk):
        """the constructor call, and the same call once more with the very same argument objects"""
        first = thunk()
        try:
            self.second = ("return", thunk())
        except V.EngineSignal:
            raise
        except Exception as ex:
            self.second = ("raise", ex)
        return first

    def second_clauses(self, cmd):
        kind, val = getattr(self, "second", (None, None))
        if kind is None:
            return
        if kind == "raise":
            yield "C09", "repeating-the-call-with-the-same-objects-yields-equal-bytes (second call raised %s: %s)" % (type(val).__name__, str(val)[:50]), False
            yield "C05", "constructible-a-second-time-from-the-same-dictionaries (raised %s)" % type(val).__name__, False
            return
        a, b = cmd.dataout, val.dataout
        same = isinstance(a, (bytearray, bytes, V.SBytes)) and isinstance(b, (bytearray, bytes, V.SBytes)) and len(a) == len(b)
        yield "C09", "repeating-the-call-with-the-same-objects-yields-equally-long-data", same
        if same:
            eq = True
            for x, y in zip(list(a), list(b)):
                if x is not y:
                    eq = V.band(eq, x == y)
            yield "C09", "repeating-the-call-with-the-same-objects-yields-equal-bytes", eq
            yield "C05", "the-same-dictionaries-marshalled-again-give-the-same-parameter-list", eq
            eqc = True
            for x, y in zip(list(cmd.cdb), list(val.cdb)):
                if x is not y:
                    eqc = V.band(eqc, x == y)
            yield "C09", "repeating-the-call-with-the-same-objects-yields-an-equal-cdb", V.band(len(cmd.cdb) == len(val.cdb), eqc)

    def sets(self, tier):
        return sets_offering(self.key)


# ------------------------------------------------------------------------------------------------ MODE SELECT


class ModeSelectUnit(_ListUnit):
    def __init__(self, ten):
        self.ten = ten
        self.key = "ModeSelect10" if ten else "ModeSelect6"
        self.name = "dataout/" + self.key
        self.hdr = D.MODE_HEADER_10 if ten else D.MODE_HEADER_6

    def _cls(self):
        return cls_of("scsi_cdb_modesense10" if self.ten else "scsi_cdb_modesense6", self.key)

    def functions(self):
        ms = cls_of("scsi_cdb_modesense10", "ModeSense10") if self.ten else cls_of("scsi_cdb_modesense6", "ModeSense6")
        return [self._cls().__init__, ms.marshall_datain.__func__]

    def cases(self, tier):
        keys = sorted(D.MODE_PAGES, key=lambda k: (k[0], k[1] or 0))
        out = []
        for s, how in self.sets(tier):
            for k in keys:
                out.append({"set": s, "how": list(how), "pages": [list(k)]})
            out.append({"set": s, "how": list(how), "pages": [list(keys[0]), list(keys[2])]})
        # equally valid descriptions of a page_0 format page: the caller's dictionary also carries "sub_page_code": 0
        # (or None); every page_0 page once alone, and one as the second page of a list
        s, how = self.sets(tier)[0]
        for k in keys:
            if k[1] is None:
                out.append({"set": s, "how": list(how), "pages": [list(k)], "extra_key": "sub_page_code=0"})
        p0 = [k for k in keys if k[1] is None]
        out.append({"set": s, "how": list(how), "pages": [list(keys[2]), list(p0[0])], "extra_key": "sub_page_code=0"})
        out.append({"set": s, "how": list(how), "pages": [list(p0[-1])], "extra_key": "sub_page_code=None"})
        return out

    def case_id(self, case):
        return "set=%s,pages=%s%s" % (case["set"], "+".join("%02X%s" % (p, "" if s is None else ".%02X" % s) for p, s in case["pages"]), "," + case["extra_key"] if case.get("extra_key") else "")

    def _fixed(self, key):
        p, s = key
        f = {"page_code": p, "spf": 0 if s is None else 1}
        if s is not None:
            f["sub_page_code"] = s
        return f

    def inputs(self, case):
        d = field_inputs(self.hdr, "h.")
        for i, (p, s) in enumerate(case["pages"]):
            d.update(field_inputs(D.MODE_PAGES[(p, s)], "p%d." % i, fixed=self._fixed((p, s))))
        d["pf"] = U(1)
        d["sp"] = U(1)
        return d

    def run(self, X, case, a):
        hv = field_values(self.hdr, a, "h.")
        cells = self.hdr.encode(hv)
        pages = []
        for i, (p, s) in enumerate(case["pages"]):
            fmt = D.MODE_PAGES[(p, s)]
            pv = field_values(fmt, a, "p%d." % i, fixed=self._fixed((p, s)))
            cells += fmt.encode(pv)
            pages.append(pv)
        if self.ten:
            D.put_be(cells, 0, 2, len(cells) - 2)
        else:
            D.put_be(cells, 0, 1, len(cells) - 1)
        self.expected = cells
        data = dict(hv, mode_pages=[dict(p) for p in pages])
        if case.get("extra_key"):
            for mp, (p, s) in zip(data["mode_pages"], case["pages"]):
                if s is None:
                    mp["sub_page_code"] = 0 if case["extra_key"].endswith("=0") else None
        self.caller_objects = [data] + data["mode_pages"]
        return self.call_twice(X, lambda: X.call(self._cls(), self.opcode_obj(case), data, pf=a.pf, sp=a.sp))

    def ensures(self, case, a, out, X):
        if out.kind != "return":
            yield "C05", "constructible-for-every-valid-dictionary (raised %s: %s)" % (type(out.exc).__name__, str(out.exc)[:60]), False
            yield "C01", "constructor-returns (raised %s)" % type(out.exc).__name__, False
            return
        cmd = out.value
        lay = L.CDB[self.key]
        yield from cdb_clauses(lay, cmd.cdb, {"pf": a.pf, "sp": a.sp})
        if isinstance(cmd.cdb, (bytearray, V.SBytes)) and len(cmd.cdb) == lay.length:
            yield from list_clauses(cmd, lay, self.expected)
        yield from self.second_clauses(cmd)

    def canaries(self, case, a, out, X):
        if out.kind == "return" and isinstance(out.value.dataout, (bytearray, V.SBytes)) and len(out.value.dataout) > 2:
            yield "canary:medium-type-off-by-one", list(out.value.dataout)[2 if self.ten else 1] == a["h.medium_type"] + 1


# ------------------------------------------------------------------------------------------------ TransportIDs


def transport_id_dict_and_bytes(kind, a, prefix, name_index=0, isid=None):
    """(dictionary in the library's vocabulary, expected bytes per SPC-4 7.6.4)"""
    if kind == "iscsi":
        name = ISCSI_NAMES[name_index]
        d = {"protocol_id": 5, "iscsi_name": name}
        if isid is not None:
            d.update(tpid_format=1, iscsi_initiator_session_id=isid)
        return d, D.iscsi_transport_id(name, isid)
    fmt = D.TRANSPORT_IDS[kind]
    v = field_values(fmt, a, prefix, fixed={"protocol_id": D.TRANSPORT_PROTOCOL[kind], "tpid_format": 0})
    return dict(v), fmt.encode(v)


def transport_id_inputs(kind, prefix):
    if kind == "iscsi":
        return {}
    return field_inputs(D.TRANSPORT_IDS[kind], prefix, fixed={"protocol_id": D.TRANSPORT_PROTOCOL[kind], "tpid_format": 0})


class TransportIdMarshall(Unit):
    """marshall_transport_id: every protocol kind, iSCSI names of every length 0..223, refusals"""

    name = "dataout/TransportID"
    properties = ("C05", "C17", "C06")

    def functions(self):
        K = cls_of("scsi_cdb_persistentreservein", "PersistentReserveInReadFullStatus")
        import pyscsi.pyscsi.scsi_cdb_persistentreservein as m

        return [K.marshall_transport_id.__func__, m._pad4_len]

    def cases(self, tier):
        out = [{"kind": k} for k in sorted(D.TRANSPORT_IDS)]
        lens = list(range(0, 41)) + [63, 64, 100, 221, 222, 223] if tier == "quick" else range(0, 224)
        for n in lens:
            out.append({"kind": "iscsi", "len": n, "isid": None})
        for n in (1, 2, 3, 4, 17, 200):
            out.append({"kind": "iscsi", "len": n, "isid": "0123456789ab"})
        # consistency of the iSCSI TransportID (C17): every way of giving / not giving the format flag x the session id
        for fmt in ("absent", "None", "0", "1"):
            for isid in ("absent", "None", "empty", "00ab"):
                out.append({"kind": "iscsi-consistency", "fmt": fmt, "isid": isid})
        return out

    def case_id(self, case):
        return ",".join("%s=%s" % kv for kv in sorted(case.items()))

    def inputs(self, case):
        if case["kind"].startswith("iscsi"):
            return {}
        return transport_id_inputs(case["kind"], "t.")

    def run(self, X, case, a):
        K = cls_of("scsi_cdb_persistentreservein", "PersistentReserveInReadFullStatus")
        if case["kind"] == "iscsi-consistency":
            d = {"protocol_id": 5, "iscsi_name": "iqn.x"}
            if case["fmt"] != "absent":
                d["tpid_format"] = {"None": None, "0": 0, "1": 1}[case["fmt"]]
            if case["isid"] != "absent":
                d["iscsi_initiator_session_id"] = {"None": None, "empty": "", "00ab": "00ab"}[case["isid"]]
            self.expected = None
            return X.call(K.marshall_transport_id, d)
        if case["kind"] == "iscsi":
            name = ("iqn.2001-04.com.example:" + "x" * 300)[:case["len"]]
            d = {"protocol_id": 5, "iscsi_name": name}
            if case["isid"] is not None:
                d.update(tpid_format=1, iscsi_initiator_session_id=case["isid"])
            self.expected = D.iscsi_transport_id(name, case["isid"])
            self.d = d
        else:
            self.d, self.expected = transport_id_dict_and_bytes(case["kind"], a, "t.")
        r = X.call(K.marshall_transport_id, self.d)
        back = X.call(K.unmarshall_transport_id, r)
        # conversely (C06): the canonical bytes of the standard, parsed and rebuilt
        canon = V.SBytes(list(self.expected), True) if V.contains_sym(list(self.expected)) else bytearray(self.expected)
        self.rebuilt = X.call(K.marshall_transport_id, X.call(K.unmarshall_transport_id, canon))
        return r, back

    def ensures(self, case, a, out, X):
        if case["kind"] == "iscsi-consistency":
            flag, sid = case["fmt"] == "1", case["isid"] == "00ab"
            if flag != sid:
                yield "C17", "inconsistent-TransportID-refused-with-ValueError (%s)" % ("session id without the format flag" if sid else "format flag without a session id"), out.kind == "raise" and isinstance(out.exc, ValueError)
            elif case["fmt"] == "None":
                # the flag given as None and no session id: neither refusal class of the property, no format to check
                yield "C17", "no-claim-for-tpid_format=None-without-session-id", True
            else:
                yield "C17", "consistent-TransportID-accepted (%s)" % out.describe()[:60], out.kind == "return"
                if out.kind == "return":
                    exp = D.iscsi_transport_id("iqn.x", "00ab" if sid else None)
                    yield "C05", "TransportID-bytes", V.bytes_eq(out.value, bytes(exp))
            return
        if out.kind != "return":
            yield "C05", "marshalls-without-error (raised %s)" % type(out.exc).__name__, False
            return
        r, back = out.value
        yield "C05", "TransportID-is-byte-buffer", isinstance(r, (bytearray, V.SBytes))
        yield "C05", "TransportID-length (multiple of 4, ADDITIONAL LENGTH honest)", len(r) == len(self.expected)
        if len(r) == len(self.expected):
            got = list(r)
            for i, e in enumerate(self.expected):
                yield "C05", "TransportID:byte%d" % i, got[i] == e
        yield "C06", "marshall(unmarshall(canonical TransportID))==canonical", V.bytes_eq(self.rebuilt, V.SBytes(list(self.expected), False)) if V.is_buffer(self.rebuilt) else False
        # C06: parsing what was built returns the original values
        for k, v in self.d.items():
            g = back.get(k, None) if isinstance(back, dict) else None
            if k == "tpid_format" or k == "protocol_id":
                yield "C06", "unmarshall(marshall(d))[%s]" % k, g == v
            elif isinstance(v, str):
                yield "C06", "unmarshall(marshall(d))[%s]" % k, g == v
            else:
                yield "C06", "unmarshall(marshall(d))[%s]" % k, V.bytes_eq(g, v) if V.is_buffer(g) else False


# ------------------------------------------------------------------------------------------------ PERSISTENT RESERVE OUT


class PROutUnit(_ListUnit):
    key = "PersistentReserveOut"
    name = "dataout/PersistentReserveOut"

    def _cls(self):
        return cls_of("scsi_cdb_persistentreserveout", "PersistentReserveOut")

    def functions(self):
        K = cls_of("scsi_cdb_persistentreservein", "PersistentReserveInReadFullStatus")
        return [self._cls().__init__, self._cls().marshall_dataout.__func__, K.marshall_transport_id.__func__]

    def cases(self, tier):
        shapes = [{"shape": "basic", "sa": sa} for sa in (0, 1, 2, 3, 4, 5, 6)]
        for tids in ([], ["fc"], ["sas", "iscsi"], ["iscsi", "rdma", "1394"]):
            shapes.append({"shape": "spec_i_pt", "sa": 0, "tids": tids})
        for tid in (None, "fc", "iscsi", "sas"):
            shapes.append({"shape": "register-and-move", "sa": 7, "tid": tid})
        out = []
        for i, (s, how) in enumerate(self.sets(tier)):
            for sh in shapes:
                if tier == "quick" and i > 0 and sh["shape"] != "basic":
                    continue
                out.append(dict(sh, set=s, how=list(how)))
        return out

    def case_id(self, case):
        extra = ""
        if case["shape"] == "spec_i_pt":
            extra = ",tids=" + ("+".join(case["tids"]) or "none")
        if case["shape"] == "register-and-move":
            extra = ",tid=%s" % case["tid"]
        return "set=%s,%s,sa=%d%s" % (case["set"], case["shape"], case["sa"], extra)

    def inputs(self, case):
        d = {"scope": U(4), "pr_type": U(4)}
        if case["shape"] == "register-and-move":
            d.update(field_inputs(D.PROUT_REGISTER_AND_MOVE))
            if case["tid"]:
                d.update(transport_id_inputs(case["tid"], "t0."))
        else:
            d.update(field_inputs(D.PROUT_BASIC, fixed={"spec_i_pt": 1} if case["shape"] == "spec_i_pt" else {"spec_i_pt": 0}))
            for i, k in enumerate(case.get("tids", [])):
                d.update(transport_id_inputs(k, "t%d." % i))
        return d

    def run(self, X, case, a):
        if case["shape"] == "register-and-move":
            vals = field_values(D.PROUT_REGISTER_AND_MOVE, a)
            exp = D.PROUT_REGISTER_AND_MOVE.encode(vals)
            kw = dict(vals)
            if case["tid"]:
                td, tb = transport_id_dict_and_bytes(case["tid"], a, "t0.")
                kw["transport_id"] = td
                D.put_be(exp, 20, 4, len(tb))
                exp = exp + tb
        else:
            fixed = {"spec_i_pt": 1} if case["shape"] == "spec_i_pt" else {"spec_i_pt": 0}
            vals = field_values(D.PROUT_BASIC, a, fixed=fixed)
            exp = D.PROUT_BASIC.encode(vals)
            kw = dict(vals)
            if case["shape"] == "spec_i_pt":
                tds, tbs = [], []
                for i, k in enumerate(case["tids"]):
                    td, tb = transport_id_dict_and_bytes(k, a, "t%d." % i, name_index=i)
                    tds.append(td)
                    tbs.extend(tb)
                kw["transport_ids"] = tds
                exp = exp + [0, 0, 0, 0] + tbs
                D.put_be(exp, 24, 4, len(tbs))
        self.expected = exp
        self.caller_objects = [v for v in kw.values() if isinstance(v, (dict, list))]
        self.caller_objects += [t for v in kw.values() if isinstance(v, list) for t in v if isinstance(t, dict)]
        return self.call_twice(X, lambda: X.call(self._cls(), self.opcode_obj(case), case["sa"], a.scope, a.pr_type, **kw))

    def ensures(self, case, a, out, X):
        if out.kind != "return":
            yield "C05", "constructible-for-every-valid-dictionary (raised %s: %s)" % (type(out.exc).__name__, str(out.exc)[:60]), False
            yield "C01", "constructor-returns (raised %s)" % type(out.exc).__name__, False
            return
        cmd = out.value
        lay = L.CDB[self.key]
        yield from cdb_clauses(lay, cmd.cdb, {"service_action": case["sa"], "scope": a.scope, "pr_type": a.pr_type})
        if isinstance(cmd.cdb, (bytearray, V.SBytes)) and len(cmd.cdb) == lay.length:
            yield from list_clauses(cmd, lay, self.expected)
        yield from self.second_clauses(cmd)

    def canaries(self, case, a, out, X):
        if out.kind == "return" and isinstance(out.value.dataout, (bytearray, bytes, V.SBytes)) and len(out.value.dataout) >= 8:
            yield "canary:reservation-key-byte-is-zero", list(out.value.dataout)[7] == (a.reservation_key & 0xFF) + 1


# ------------------------------------------------------------------------------------------------ EXTENDED COPY

DEVICE_TYPE_SPELLINGS = {
    0x00: [0x00, "Direct access block device (e.g., magnetic disk)"],
    0x01: [0x01, "Stream or Tape", "Sequential access device (e.g., magnetic tape)"],
    0x03: [0x03, "Processor device"],
    0x04: [0x04, "Write-once device (e.g., some optical disks)"],  # SPC-4 (LID1) only
    0x05: [0x05, "CD/DVD device"],
    0x07: [0x07, "Optical memory device (e.g., some optical disks)"],  # SPC-4 (LID1) only
    0x0E: [0x0E],
}


def designator_format(desig):
    """'kind' (first length of the spec) or 'kind:length' -> (DESIGNATOR TYPE, format of the designator bytes)"""
    kind, _, n = desig.partition(":")
    t, mk, lens = D.DESIGNATORS[kind]
    return t, mk(int(n) if n else lens[0])


class XCopyUnit(_ListUnit):
    def __init__(self, lid4):
        self.lid4 = lid4
        self.key = "ExtendedCopy5" if lid4 else "ExtendedCopy4"
        self.name = "dataout/" + self.key
        self.seg = D.xcopy_segment(lid4)

    def _cls(self):
        return cls_of("scsi_cdb_extended_copy_spc5" if self.lid4 else "scsi_cdb_extended_copy_spc4", "ExtendedCopy")

    def functions(self):
        K = self._cls()
        names = ["__init__", "marshall_parameter_list", "marshall_cscd" if self.lid4 else "marshall_target",
                 "marshall_cscd_descriptor_parameters" if self.lid4 else "marshall_target_descriptor_parameters",
                 "marshall_designator_descriptor", "marshall_segment", "encode_segment_dict", "get_code_int"]
        out = []
        for n in names:
            f = K.__dict__.get(n)
            if f is not None:
                out.append(getattr(f, "__func__", f))
        return out

    def shapes(self, tier):
        sh = [
            {"targets": [], "segments": [], "inline": 0},
            {"targets": [[0x00, 0, "naa-6"]], "segments": [], "inline": 0},
            {"targets": [[0x00, 1, "naa-5"], [0x01, 1, "naa-6"]], "segments": [[0x00, 0]], "inline": 0},
            {"targets": [[0x01, 2, "naa-3"], [0x00, 0, "naa-6"]], "segments": [[0x01, 1]], "inline": 5},
            {"targets": [[0x00, 0, "naa-6"], [0x05, 0, "naa-2"]], "segments": [[0x02, 0], [0x02, 1]], "inline": 0},
            {"targets": [[0x03, 0, "naa-5"], [0x0E, 0, "naa-6"]], "segments": [[0x0D, 0], [0x0B, 0], [0x0C, 0]], "inline": 3},
            {"targets": [[0x00, 0, "eui64-8"]], "segments": [[0x02, 2]], "inline": 0},
        ]
        # the DESIGNATOR field of the identification descriptor holds up to 20 bytes: every length 17..20 and the
        # variable-length kinds at their maximum
        sh.append({"targets": [[0x00, 0, "t10-vendor-id:20"], [0x00, 0, "vendor-specific:17"]], "segments": [[0x02, 0]], "inline": 0})
        sh.append({"targets": [[0x01, 1, "vendor-specific:20"], [0x00, 0, "t10-vendor-id:19"], [0x00, 0, "scsi-name-string:18"]], "segments": [], "inline": 0})
        if not self.lid4:
            # every peripheral device type of the SPC-4 table occurs in some shape (00 01 03 04 05 07 0E)
            sh.append({"targets": [[0x04, 0, "naa-6"], [0x07, 1, "naa-5"]], "segments": [[0x02, 0]], "inline": 0})
            sh.append({"targets": [[0x07, 0, "naa-2"], [0x04, 1, "naa-6"]], "segments": [], "inline": 0})
        return sh

    def cases(self, tier):
        out = []
        for i, (s, how) in enumerate(self.sets(tier)):
            for j, sh in enumerate(self.shapes(tier)):
                if tier == "quick" and i > 0 and j > 1:
                    continue
                out.append(dict(sh, set=s, how=list(how)))
        # refusals (C17)
        s, how = self.sets(tier)[0]
        for what in ("target-foreign-key", "segment-foreign-key", "unknown-target-type", "unknown-device-type", "unknown-segment-type", "lu_id_type"):
            out.append({"set": s, "how": list(how), "refusal": what})
        # every segment descriptor type x every key that belongs to ANOTHER segment type (or to no type at all): refused
        all_keys = sorted({k for f in self.seg.values() for k in f.fields} | {"descriptor_length", "unexpected_key"})
        for code in sorted(self.seg):
            own = set(self.seg[code].fields) | {"descriptor_length"}
            for k in all_keys:
                if k not in own:
                    out.append({"set": s, "how": list(how), "refusal": "segment-key", "code": code, "key": k})
        # every segment descriptor type code 00h..FFh the class has no layout for, described with the keys of each
        # layout it does have: refused (no code borrows the layout of another one)
        for code in sorted(self.seg):
            out.append({"set": s, "how": list(how), "refusal": "segment-code-without-layout", "keys_of": code})
        # every PERIPHERAL DEVICE TYPE code 00h..1Fh that this revision's table does not list: refused
        out.append({"set": s, "how": list(how), "refusal": "device-type-not-in-this-revision"})
        return out

    def case_id(self, case):
        if "refusal" in case:
            return "set=%s,refusal=%s%s%s" % (case["set"], case["refusal"], ",type=%02X,key=%s" % (case["code"], case["key"]) if "code" in case else "",
                                              ",keys-of-type-%02X" % case["keys_of"] if "keys_of" in case else "")
        return "set=%s,targets=%s,segments=%s,inline=%d" % (
            case["set"], "+".join("%02X:%d:%s" % tuple(t) for t in case["targets"]) or "none",
            "+".join("%02X:%d" % tuple(s) for s in case["segments"]) or "none", case["inline"])

    def hdr(self):
        return D.XCOPY_LID4_HEADER if self.lid4 else D.XCOPY_LID1_HEADER

    def inputs(self, case):
        if "refusal" in case:
            return {}
        d = field_inputs(self.hdr(), "h.")
        for i, (dt, spell, desig) in enumerate(case["targets"]):
            d["t%d.relative_initiator_port_identifier" % i] = U(16)
            d["t%d.code_set" % i] = U(4)
            d["t%d.association" % i] = U(2)
            d["t%d.pad" % i] = U(1)
            d["t%d.block_length" % i] = U(24)
            if dt == 0x01:
                d["t%d.fixed" % i] = U(1)
            t, fmt = designator_format(desig)
            fixed = {"naa": D.NAA_FIXED[desig]} if desig in D.NAA_FIXED else {}
            d.update(field_inputs(fmt, "t%d.d." % i, fixed=fixed))
        for i, (code, spell) in enumerate(case["segments"]):
            d.update(field_inputs(self.seg[code], "s%d." % i, fixed={"descriptor_type_code": code}))
        if case["inline"]:
            d["inline"] = Bytes(case["inline"])
        return d

    def _target(self, i, dt, spell, desig, a):
        t, fmt = designator_format(desig)
        fixed = {"naa": D.NAA_FIXED[desig]} if desig in D.NAA_FIXED else {}
        dv = field_values(fmt, a, "t%d.d." % i, fixed=fixed)
        dbytes = fmt.encode(dv)
        vals = {
            "lu_id_type": 0, "peripheral_device_type": dt, "relative_initiator_port_identifier": a["t%d.relative_initiator_port_identifier" % i],
            "code_set": a["t%d.code_set" % i], "association": a["t%d.association" % i], "designator_type": t,
            "designator_length": len(dbytes), "designator": dbytes + [0] * (20 - len(dbytes)),
            "pad": 0, "fixed": 0, "block_length": 0,
        }
        spec = {"pad": a["t%d.pad" % i]}
        if dt in D.XCOPY_BLOCK_TYPES:
            vals["pad"] = a["t%d.pad" % i]
            vals["block_length"] = a["t%d.block_length" % i]
            spec["disk_block_length"] = a["t%d.block_length" % i]
        elif dt == 0x01:
            vals["pad"] = a["t%d.pad" % i]
            vals["fixed"] = a["t%d.fixed" % i]
            vals["block_length"] = a["t%d.block_length" % i]
            spec.update(fixed=a["t%d.fixed" % i], stream_block_length=a["t%d.block_length" % i])
        elif dt == 0x03:
            vals["pad"] = a["t%d.pad" % i]
        dt_spelled = DEVICE_TYPE_SPELLINGS[dt][spell % len(DEVICE_TYPE_SPELLINGS[dt])]
        type_name = "Identification Descriptor CSCD descriptor" if self.lid4 else "Identification descriptor target descriptor"
        lib = {
            "descriptor_type_code": 0xE4 if i % 2 == 0 else type_name,
            "peripheral_device_type": dt_spelled,
            "relative_initiator_port_identifier": a["t%d.relative_initiator_port_identifier" % i],
            ("cscd_descriptor_parameters" if self.lid4 else "target_descriptor_parameters"): {
                "code_set": a["t%d.code_set" % i], "association": a["t%d.association" % i], "designator_type": t,
                "designator_length": len(dbytes), "designator": dict(dv)},
            "device_type_specific_parameters": spec,
        }
        return lib, D.XCOPY_CSCD_E4.encode(vals)

    def _segment(self, i, code, spell, a):
        fmt = self.seg[code]
        sv = field_values(fmt, a, "s%d." % i, fixed={"descriptor_type_code": code})
        lib = dict(sv)
        base = {0x0B: 0x00, 0x0C: 0x01, 0x0D: 0x02}.get(code, code)
        if spell and code == base:
            lib["descriptor_type_code"] = D.XCOPY_SEGMENT_NAMES[base][spell - 1]
        return lib, fmt.encode(sv)

    def run(self, X, case, a):
        K = self._cls()
        op = self.opcode_obj(case)
        if "refusal" in case:
            return self.run_refusal(X, case, K, op)
        hv = field_values(self.hdr(), a, "h.")
        tl, tb, sl, sb = [], [], [], []
        for i, (dt, spell, desig) in enumerate(case["targets"]):
            lib, b = self._target(i, dt, spell, desig, a)
            tl.append(lib)
            tb.extend(b)
        for i, (code, spell) in enumerate(case["segments"]):
            lib, b = self._segment(i, code, spell, a)
            sl.append(lib)
            sb.extend(b)
        inline = a.inline if case["inline"] else (V.SBytes([]) if X.symbolic else bytearray())
        exp = self.hdr().encode(hv)
        lens = D.XCOPY_LID4_LENGTHS if self.lid4 else D.XCOPY_LID1_LENGTHS
        lens["targets"].encode(exp, len(tb))
        lens["segments"].encode(exp, len(sb))
        lens["inline"].encode(exp, len(list(inline)))
        self.expected = exp + tb + sb + list(inline)
        self.caller_objects = tl + sl + [tl, sl]
        self.caller_writable = sl  # marshall_segment normalises descriptor_type_code / descriptor_length in place (idempotent)
        if self.lid4:
            return self.call_twice(X, lambda: X.call(K, op, hv["sequential_striped"], hv["list_id_usage"], hv["priority"], hv["g_sense"], hv["immed"], hv["list_identifier"], tl, sl, inline))
        return self.call_twice(X, lambda: X.call(K, op, hv["list_identifier"], hv["sequential_striped"], hv["nrcr"], hv["priority"], tl, sl, inline))

    def run_refusal(self, X, case, K, op):
        what = case["refusal"]
        tkey = "cscd_descriptor_parameters" if self.lid4 else "target_descriptor_parameters"
        src, dst = ("source_cscd_descriptor_id", "destination_cscd_descriptor_id") if self.lid4 else ("source_target_descriptor_id", "destination_target_descriptor_id")
        good_t = {"descriptor_type_code": 0xE4, "peripheral_device_type": 0,
                  tkey: {"code_set": 1, "association": 0, "designator_type": 3, "designator_length": 16,
                         "designator": {"naa": 6, "ieee_company_id": 1, "vendor_specific_identifier": 2, "vendor_specific_identifier_extension": 3}},
                  "device_type_specific_parameters": {"disk_block_length": 512}}
        good_s = {"descriptor_type_code": 0x02, "dc": 1, src: 0, dst: 0, "block_device_number_of_blocks": 1,
                  "source_block_device_logical_block_address": 0, "destination_block_device_logical_block_address": 0}
        t, s = dict(good_t), dict(good_s)
        if what == "target-foreign-key":
            t["unexpected_key"] = 1
        elif what == "segment-foreign-key":
            s["unexpected_key"] = 1
        elif what == "unknown-target-type":
            t["descriptor_type_code"] = 0x42
        elif what == "unknown-device-type":
            t["peripheral_device_type"] = "no such device type"
        elif what == "unknown-segment-type":
            s["descriptor_type_code"] = "no such segment type"
        elif what == "lu_id_type":
            t["lu_id_type"] = 1
        elif what == "segment-key":
            s = {k: 0 for k in self.seg[case["code"]].fields}
            s["descriptor_type_code"] = case["code"]
            s[case["key"]] = 1
        elif what == "device-type-not-in-this-revision":
            listed = {0x00, 0x01, 0x03, 0x05, 0x0E} | (set() if self.lid4 else {0x04, 0x07})
            accepted = []
            for code in range(32):
                if code in listed:
                    continue
                t = dict(good_t)
                t["peripheral_device_type"] = code
                try:
                    if self.lid4:
                        X.call(K, op, 0, 0, 0, 0, 0, 0, [t], [dict(good_s)], bytearray())
                    else:
                        X.call(K, op, 0, 0, 0, 0, [t], [dict(good_s)], bytearray())
                    accepted.append(code)
                except V.EngineSignal:
                    raise
                except (ValueError, NotImplementedError):
                    pass
                except Exception as ex:
                    accepted.append((code, type(ex).__name__))
            return accepted
        elif what == "segment-code-without-layout":
            accepted = []
            for code in range(256):
                if code in self.seg:
                    continue
                s = {k: 0 for k in self.seg[case["keys_of"]].fields}
                s["descriptor_type_code"] = code
                try:
                    if self.lid4:
                        X.call(K, op, 0, 0, 0, 0, 0, 0, [dict(good_t)], [s], bytearray())
                    else:
                        X.call(K, op, 0, 0, 0, 0, [dict(good_t)], [s], bytearray())
                    accepted.append(code)
                except V.EngineSignal:
                    raise
                except (ValueError, NotImplementedError):
                    pass
                except Exception as ex:
                    accepted.append((code, type(ex).__name__))
            return accepted
        if self.lid4:
            return X.call(K, op, 0, 0, 0, 0, 0, 0, [t], [s], bytearray())
        return X.call(K, op, 0, 0, 0, 0, [t], [s], bytearray())

    def ensures(self, case, a, out, X):
        if case.get("refusal") == "device-type-not-in-this-revision":
            acc = out.value if out.kind == "return" else ["the sweep itself raised %s" % out.describe()[:40]]
            yield "C17", "every-device-type-code-this-revision-does-not-list-is-refused%s" % (" (accepted: %s)" % ", ".join("%02Xh" % c if isinstance(c, int) else str(c) for c in acc[:6]) if acc else ""), not acc
            return
        if case.get("refusal") == "segment-code-without-layout":
            acc = out.value if out.kind == "return" else ["the sweep itself raised %s" % out.describe()[:40]]
            yield "C17", "every-type-code-without-a-layout-is-refused%s" % (" (accepted: %s)" % ", ".join("%02Xh" % c if isinstance(c, int) else str(c) for c in acc[:6]) if acc else ""), not acc
            return
        if "refusal" in case:
            yield "C17", "refused-with-ValueError (%s)" % (out.describe()[:60]), out.kind == "raise" and isinstance(out.exc, ValueError)
            return
        if out.kind != "return":
            yield "C05", "constructible-for-every-valid-dictionary (raised %s: %s)" % (type(out.exc).__name__, str(out.exc)[:70]), False
            yield "C01", "constructor-returns (raised %s)" % type(out.exc).__name__, False
            return
        cmd = out.value
        lay = L.CDB[self.key]
        yield from cdb_clauses(lay, cmd.cdb, {})
        if isinstance(cmd.cdb, (bytearray, V.SBytes)) and len(cmd.cdb) == lay.length:
            yield from list_clauses(cmd, lay, self.expected)
        yield from self.second_clauses(cmd)


UNITS = [register(u) for u in (ModeSelectUnit(False), ModeSelectUnit(True), TransportIdMarshall(), PROutUnit(), XCopyUnit(False), XCopyUnit(True))]

# contracts.termination -- C11: decoding device data always terminates, whatever the bytes.
#
# (1) variant obligations at the head of every `while` loop of every decoder (pyvc.loops): unbounded in the buffer
#     length and contents;
# (1b) for every `for ... in range(<non-constant>)` of a decoder: the length of the range is at most 2*len(buffer)+8
#     on every path when the range is built (RangeLoops; unbounded in the buffer length);
# (2) an inventory of all loops of the decoders, found by an AST scan on every run: every `while` is in the stride
#     schema and has a variant unit, every `for` iterates over a finite sequence fixed before the loop, the
#     decoders do not recurse, every layout mask is positive (the mask loops of the codec terminate);
# (3) bounded confirmation (labelled bounded): every decoder is run on every buffer of length <= N with all bytes
#     symbolic; no path may exceed len+2 iterations of any loop.  A path that does yields the failing input, which
#     is replayed natively under a line-event budget.
import ast
import importlib
import inspect
import sys

from pyvc import values as V
from pyvc.unit import Unit, U, Buf, Bytes, register
from . import common as C


def decoder_functions():
    """[(qualified name, class, function object, how to call)] for every unmarshall_* attribute of every command
    class and of SCSICheckCondition"""
    import pyscsi.pyscsi.scsi_sense as ss

    out = []
    seen = set()
    for cls in list(C.command_classes()) + [ss.SCSICheckCondition]:
        for k, d in vars(cls).items():
            if not k.startswith("unmarshall") or k == "unmarshall_cdb":
                continue
            fn = d.__func__ if isinstance(d, (classmethod, staticmethod)) else d
            if not inspect.isfunction(fn) or fn in seen:
                continue
            seen.add(fn)
            kind = "class" if isinstance(d, classmethod) else "static" if isinstance(d, staticmethod) else "plain"
            out.append(("%s.%s.%s" % (cls.__module__.rsplit(".", 1)[-1], cls.__name__, k), cls, fn, kind))
    return out


def helper_functions():
    """[(qualified name, function)]: functions of the decoders' classes and modules (other than the decoders themselves)
    that a decoder calls, directly or through other helpers, and that contain a loop: their loops are the decoders'
    loops too"""
    import sys

    decs = decoder_functions()
    dec_fns = {fn for _, _, fn, _ in decs}
    cand = {}
    for name, cls, fn, kind in decs:
        mod = sys.modules.get(fn.__module__)
        for k, d in list(vars(cls).items()) + (list(vars(mod).items()) if mod else []):
            f = d.__func__ if isinstance(d, (classmethod, staticmethod)) else d
            if inspect.isfunction(f) and f not in dec_fns and getattr(f, "__module__", "").startswith("pyscsi") and not k.startswith("marshall") and k != "unmarshall_cdb":
                cand.setdefault(k, f)
    called = set()
    work = [fn for _, _, fn, _ in decs]
    done = set()
    while work:
        f = work.pop()
        if f in done:
            continue
        done.add(f)
        try:
            node = fn_node(f)
        except Exception:
            continue
        for c in ast.walk(node):
            if isinstance(c, ast.Call):
                nm = c.func.attr if isinstance(c.func, ast.Attribute) else c.func.id if isinstance(c.func, ast.Name) else None
                if nm in cand and cand[nm] not in called:
                    called.add(cand[nm])
                    work.append(cand[nm])
    out = []
    for f in called:
        try:
            node = fn_node(f)
        except Exception:
            continue
        if any(isinstance(n, (ast.While, ast.For)) for n in ast.walk(node)):
            out.append(("%s.%s" % (f.__module__.rsplit(".", 1)[-1], f.__qualname__), f))
    return sorted(out, key=lambda t: t[0])


def fn_node(fn):
    import textwrap

    return ast.parse(textwrap.dedent(inspect.getsource(fn))).body[0]


def extra_args(name, fn):
    """argument tuples besides the buffer, by decoder; enumerated (shape-like arguments)"""
    sig = inspect.signature(fn)
    params = [p for p in sig.parameters if p not in ("cls", "self")]
    if name.endswith("Inquiry.unmarshall_datain"):
        return [{"evpd": 0}, {"evpd": 1}]
    if name.endswith("ReadCd.unmarshall_datain"):
        return [{"lba": 0, "tl": 2, "est": e, "mcsb": m, "c2ei": c, "scsb": s} for (e, m, c, s) in ((0, 0x1F, 1, 2), (2, 0x02, 0, 0), (4, 0x0B, 2, 4))]
    if name.endswith("unmarshall_designator"):
        return [{"_type": t} for t in range(0, 10)]
    return [{}]


def buffer_param(fn):
    for p in inspect.signature(fn).parameters:
        if p not in ("cls", "self", "_type"):
            return p


class LoopVariant(Unit):
    native_timeout = 0  # runs long by design (own budgets / child processes): no per-call alarm
    name = "termination/loop-variant"
    properties = ("C11",)
    witness = False  # the inputs of a path do not determine the havocked loop-head state

    def _targets(self):
        out = []
        for name, cls, fn, kind in decoder_functions():
            node = fn_node(fn)
            loops = [n for n in ast.walk(node) if isinstance(n, ast.While)]
            for k, l in enumerate(loops):
                for extra in extra_args(name, fn):
                    out.append((name, k, extra, None))
        # loops of helper functions the decoders call (other than the codec, whose loops are C10's): the target loop is
        # reached by running every decoder of the helper's module
        for hname, hf in helper_functions():
            if hf.__module__.endswith(".converter"):
                continue
            hl = [n for n in ast.walk(fn_node(hf)) if isinstance(n, ast.While)]
            for name, cls, fn, kind in decoder_functions():
                if fn.__module__ != hf.__module__:
                    continue
                for k in range(len(hl)):
                    for extra in extra_args(name, fn):
                        out.append((name, k, extra, hname))
        return out

    def _target_fn(self, case):
        if case.get("helper"):
            for hname, hf in helper_functions():
                if hname == case["helper"]:
                    return hf
        return self._fn(case)[1]

    def functions(self):
        return [fn for _, _, fn, _ in decoder_functions() if any(isinstance(n, ast.While) for n in ast.walk(fn_node(fn)))]

    def cases(self, tier):
        return [dict({"decoder": n, "loop": k, "extra": e}, **({"helper": h} if h else {})) for n, k, e, h in self._targets()]

    def case_id(self, case):
        return "%s#while%d%s%s" % (case.get("helper") or case["decoder"], case["loop"], "".join(",%s=%s" % kv for kv in sorted(case["extra"].items())),
                                   ",via=" + case["decoder"].rsplit(".", 2)[-2] + "." + case["decoder"].rsplit(".", 1)[-1] if case.get("helper") else "")

    def _fn(self, case):
        for name, cls, fn, kind in decoder_functions():
            if name == case["decoder"]:
                return cls, fn, kind

    def inputs(self, case):
        return {"data": Buf(maxlen=1 << 24)}

    def interp_config(self, case):
        from pyvc import loops

        from .converter import l0_contracts

        fn = self._target_fn(case)
        self.stats = {}
        return {"loop_hook": loops.make_hook(fn, case["loop"], self.stats), "for_hook": loops.make_for_hook(fn), "contracts": l0_contracts()}

    def run(self, X, case, a):
        cls, fn, kind = self._fn(case)
        args = [a.data]
        kw = dict(case["extra"])
        if "_type" in kw:
            args = [kw.pop("_type"), a.data]
        if not X.symbolic:
            return {"reached": False}
        from pyvc.loops import LoopSummarized

        X.ctx.range_bound = 2 * V.buf_len(a.data) + 8  # a `for ... in range(<symbolic>)` before the target loop
        try:
            if kind == "class":
                X.call(fn, cls, *args, **kw)
            else:
                X.call(fn, *args, **kw)
        except LoopSummarized as s:
            return s.info
        return {"reached": False}

    def ensures(self, case, a, out, X):
        if out.kind == "return" and out.value.get("reached"):
            yield "C11", "variant:len(buffer)-(or-the-gap-of-an-index-loop)-strictly-decreases-per-iteration", out.value["variant"]
        elif out.kind == "loopbound":
            yield "C11", "no-unbounded-loop-before-the-target", False

    def finalize(self, case, outs, kinds):
        node = fn_node(self._target_fn(case))
        loop = [n for n in ast.walk(node) if isinstance(n, ast.While)][case["loop"]]
        from pyvc import loops

        ok, why = loops.schema_check(loop)
        yield "C11", "loop-is-in-the-stride-schema (%s)" % why, ok
        reached = sum(1 for o in outs if o.kind == "return" and isinstance(o.value, dict) and o.value.get("reached"))
        # vacuity guard: the loop head is reached on some path, or the exploration of the function's prefix is
        # complete and every path ends (returns / raises) before the loop -- then the loop cannot run at all
        yield "C11", "loop-head-reached-or-unreachable (%d paths reach it, %d end before it)" % (reached, len(kinds) - reached), reached > 0 or len(kinds) > 0
        if case.get("helper"):
            self._helper_reached[(case["helper"], case["loop"])] = self._helper_reached.get((case["helper"], case["loop"]), 0) + reached

    _helper_reached = {}

    def replay_redirect(self, case, tier):
        """a failed variant obligation speaks about an abstract loop-head state; search a concrete input that
        drives the real decoder past the iteration bound (bounded exploration over short buffers)"""
        from pyvc.verify import verify_case

        for n in (12, 20, 28, 36, 44):
            c = {"decoder": case["decoder"], "n": n, "extra": case["extra"]}
            r = verify_case("termination/bounded", c, "C11", tier, {"no_witness": True, "explore_budget_s": 120})
            for v in r["violations"]:
                if v.get("inputs") is not None:
                    return "termination/bounded", c, v["inputs"]
        return None

    def canaries(self, case, a, out, X):
        if out.kind == "return" and out.value.get("reached") and out.value.get("new_len") is not None:
            yield "canary:buffer-length-unchanged-by-an-iteration", V.compare("==", out.value["new_len"], out.value["old_len"])


class RangeLoops(Unit):
    native_timeout = 0  # runs long by design (own budgets / child processes): no per-call alarm
    """every `for ... in range(...)` of a decoder: when the range is built, its length is at most 2*len(buffer)+8 on
    every path (any buffer length, any contents) -- or does not depend on device data at all.  `while` loops met on
    the way are replaced by their summaries (they have their own variant obligations)."""

    name = "termination/range-loops"
    properties = ("C11",)
    witness = False

    def _targets(self):
        out = []
        for name, cls, fn, kind in decoder_functions():
            node = fn_node(fn)
            if any(isinstance(n, ast.For) and isinstance(n.iter, ast.Call) and isinstance(n.iter.func, ast.Name) and n.iter.func.id == "range"
                   and not all(isinstance(x, ast.Constant) for x in n.iter.args) for n in ast.walk(node)):
                for extra in extra_args(name, fn):
                    out.append((name, extra))
        return out

    def functions(self):
        names = {n for n, _ in self._targets()}
        return [fn for name, _, fn, _ in decoder_functions() if name in names]

    def cases(self, tier):
        return [{"decoder": n, "extra": e} for n, e in self._targets()] or [{"decoder": None, "extra": {}}]

    def case_id(self, case):
        return "%s%s" % (case["decoder"], "".join(",%s=%s" % kv for kv in sorted(case["extra"].items())))

    _fn = LoopVariant._fn

    def inputs(self, case):
        return {"data": Buf(maxlen=1 << 24)} if case["decoder"] else {}

    def interp_config(self, case):
        if not case["decoder"]:
            return {}
        from pyvc import loops
        from .converter import l0_contracts

        cls, fn, kind = self._fn(case)
        return {"loop_hook": loops.make_hook(fn, None), "for_hook": loops.make_for_hook(fn), "contracts": l0_contracts()}

    def run(self, X, case, a):
        if not case["decoder"] or not X.symbolic:
            return None
        cls, fn, kind = self._fn(case)
        args = [a.data]
        kw = dict(case["extra"])
        if "_type" in kw:
            args = [kw.pop("_type"), a.data]
        X.ctx.range_bound = 2 * V.buf_len(a.data) + 8
        if kind == "class":
            args = [cls] + args
        X.call(fn, *args, **kw)
        return None

    def ensures(self, case, a, out, X):
        if not case["decoder"]:
            yield "C11", "no-decoder-loops-over-a-range-of-non-constant-length", True
            return
        yield "C11", "range-loop-length-at-most-2*len(buffer)+8-on-every-path", out.kind != "loopbound"

    def replay_redirect(self, case, tier):
        return LoopVariant.replay_redirect(self, case, tier)


class LoopInventory(Unit):
    native_timeout = 0  # runs long by design (own budgets / child processes): no per-call alarm
    name = "termination/inventory"
    properties = ("C11",)

    def run(self, X, case, a):
        from .converter import repo_layouts

        inv = []
        calls = {}
        for name, cls, fn, kind in decoder_functions():
            node = fn_node(fn)
            for n in ast.walk(node):
                if isinstance(n, ast.For):
                    it = n.iter
                    why = ast.unparse(it)
                    # a `for` over a container, a slice, a range, a dictionary view ... is finite.  Statically refused
                    # are only the constructs that build an endless iterator in place; a name bound to such an iterator
                    # elsewhere is caught by the bounded unit (the interpreter bounds the iterations of every `for`)
                    finite = True
                    for c in ast.walk(it):
                        if isinstance(c, ast.Call):
                            fname = c.func.id if isinstance(c.func, ast.Name) else c.func.attr if isinstance(c.func, ast.Attribute) else ""
                            if fname in ("count", "cycle") or (fname == "repeat" and len(c.args) < 2 and not c.keywords) or (fname == "iter" and len(c.args) == 2):
                                finite = False
                    mutated = any(isinstance(m, ast.Call) and isinstance(m.func, ast.Attribute) and m.func.attr in ("append", "extend", "insert")
                                  and ast.unparse(m.func.value) == ast.unparse(it) for b in n.body for m in ast.walk(b))
                    inv.append(("for", name, n.lineno, why, finite and not mutated))
            calls[name] = {c.func.attr for c in ast.walk(node) if isinstance(c, ast.Call) and isinstance(c.func, ast.Attribute)} | \
                          {c.func.id for c in ast.walk(node) if isinstance(c, ast.Call) and isinstance(c.func, ast.Name)}
        # regular expressions used by the decoders' modules: matching time is outside the loop analysis (it happens in
        # the regex engine); a pattern with an unbounded repetition nested in another one can backtrack exponentially
        import re as _re
        import sys as _sys

        self.regexes = []
        seen_mods = set()
        for name, cls, fn, kind in decoder_functions():
            mod = _sys.modules.get(fn.__module__)
            if mod is None or mod in seen_mods:
                continue
            seen_mods.add(mod)
            pats = {v.pattern for v in vars(mod).values() if isinstance(v, _re.Pattern)}
            try:
                tree = ast.parse(inspect.getsource(mod))
            except (OSError, TypeError):
                tree = None
            if tree is not None:
                for c in ast.walk(tree):
                    if (isinstance(c, ast.Call) and isinstance(c.func, ast.Attribute) and isinstance(c.func.value, ast.Name) and c.func.value.id == "re"
                            and c.args and isinstance(c.args[0], ast.Constant) and isinstance(c.args[0].value, (str, bytes))):
                        pats.add(c.args[0].value)
            for p in sorted(pats, key=repr):
                self.regexes.append((mod.__name__, p, regex_nested_unbounded(p)))
        masks = []
        for lname, lay in repo_layouts().items():
            for k, v in lay.items():
                if len(v) == 2:
                    masks.append((lname, k, isinstance(v[0], int) and v[0] > 0))
        return inv, calls, masks

    def ensures(self, case, a, out, X):
        if out.kind != "return":
            yield "C11", "inventory-completes (raised %s)" % type(out.exc).__name__, False
            return
        inv, calls, masks = out.value
        for kind, name, line, why, ok in inv:
            yield "C11", "for-loop-does-not-iterate-over-an-endless-or-growing-sequence:%s:line%d (%s)" % (name, line, why[:40]), ok
        names = {n.rsplit(".", 1)[-1]: n for n in calls}
        # no recursion: the call graph restricted to decoder functions is acyclic
        graph = {n: {names[c] for c in cs if c in names} for n, cs in calls.items()}
        state = {}

        def cyc(n):
            if state.get(n) == 1:
                return True
            if state.get(n) == 2:
                return False
            state[n] = 1
            r = any(cyc(m) for m in graph[n])
            state[n] = 2
            return r

        for n in sorted(graph):
            yield "C11", "decoder-does-not-recurse:%s" % n, not cyc(n)
        for mname, pat, bad in getattr(self, "regexes", []):
            yield "C11", "regex-without-nested-unbounded-repetition (matching cannot backtrack exponentially):%s:%r" % (mname.rsplit(".", 1)[-1], pat if len(repr(pat)) < 90 else repr(pat)[:90]), not bad
        yield "C11", "all-layout-masks-positive (mask loops of the codec terminate)", all(ok for _, _, ok in masks) and len(masks) > 100
        for lname, k, ok in masks:
            if not ok:
                yield "C11", "mask-positive:%s.%s" % (lname, k), False


def regex_nested_unbounded(pattern):
    """True if the pattern has an unbounded repetition (*, +, {n,}) whose body contains another unbounded repetition
    (star height > 1): the classical shape of exponential backtracking.  Patterns that cannot be parsed count as bad."""
    try:
        import re._parser as sre_parse  # Python >= 3.11
    except ImportError:  # pragma: no cover
        import sre_parse
    try:
        tree = sre_parse.parse(pattern)
    except Exception:
        return True
    MAXREPEAT = sre_parse.MAXREPEAT

    def walk(items, inside_unbounded):
        for op, av in items:
            name = str(op)
            if name in ("MAX_REPEAT", "MIN_REPEAT", "POSSESSIVE_REPEAT"):
                lo, hi, body = av
                unbounded = hi == MAXREPEAT or hi > 64
                if unbounded and inside_unbounded:
                    return True
                if walk(body, inside_unbounded or unbounded):
                    return True
            elif name == "SUBPATTERN":
                if walk(av[-1], inside_unbounded):
                    return True
            elif name == "BRANCH":
                for alt in av[1]:
                    if walk(alt, inside_unbounded):
                        return True
            elif name in ("ASSERT", "ASSERT_NOT"):
                if walk(av[1], inside_unbounded):
                    return True
            elif name == "ATOMIC_GROUP":
                if walk(av, inside_unbounded):
                    return True
        return False

    return walk(list(tree), False)


class _Budget(Exception):
    pass


def loop_header_lines(fn):
    """absolute line numbers of the `while` / `for` headers of fn"""
    node = fn_node(fn)
    base = fn.__code__.co_firstlineno - node.lineno
    # decorators shift co_firstlineno to the first decorator line; node.lineno is the `def` line in the dedented source
    import inspect as _i

    src, first = _i.getsourcelines(fn)
    return {first + n.lineno - 1 for n in ast.walk(node) if isinstance(n, (ast.While, ast.For))}


def run_with_budget(fn, args, kwargs, max_iterations, max_events=2000000):
    """call natively, counting how often each loop header of fn is executed; raises _Budget when one loop header
    is executed more than max_iterations times (or the overall line-event budget is exhausted)"""
    headers = loop_header_lines(fn)
    code = fn.__code__
    counts = {}
    total = [0]

    def tracer(frame, event, arg):
        if event == "line":
            total[0] += 1
            if total[0] > max_events:
                raise _Budget()
            if frame.f_code is code and frame.f_lineno in headers:
                c = counts.get(frame.f_lineno, 0) + 1
                counts[frame.f_lineno] = c
                if c > max_iterations:
                    raise _Budget()
        return tracer

    old = sys.gettrace()
    sys.settrace(tracer)
    try:
        return fn(*args, **kwargs), counts
    finally:
        sys.settrace(old)


def iteration_bound(n):
    return 2 * n + 8


class BoundedTermination(Unit):
    native_timeout = 0  # runs long by design (own budgets / child processes): no per-call alarm
    """every decoder on every buffer of a small length: no path iterates more than len+2 times"""

    name = "termination/bounded"
    properties = ("C11",)
    level = "bounded"
    witness = False
    max_paths = 500  # deterministic truncation (a path count, not a time budget, so that runs are repeatable)
    truncate_ok = True  # a bounded stand-in: a truncated exploration is reported as such, never counted as proof
    explore_budget_s = {"quick": 300, "thorough": 1200}

    def cases(self, tier):
        lens = (8, 12, 20) if tier == "quick" else (4, 8, 12, 16, 20, 24, 32)
        self.max_paths = 500 if tier == "quick" else 4000
        out = []
        for name, cls, fn, kind in decoder_functions():
            node = fn_node(fn)
            if not any(isinstance(n, (ast.While, ast.For)) for n in ast.walk(node)):
                continue
            for extra in extra_args(name, fn):
                for n in lens:
                    out.append({"decoder": name, "n": n, "extra": extra})
        return out

    bound_note = "buffers of length 8, 12, 20 (quick) / 4..32 (thorough) with all bytes symbolic, at most 500 (4000) paths per decoder and length (depth-first; truncation is listed in the notes); longer buffers are covered by the variant obligations only"

    def case_id(self, case):
        return "%s,n=%d%s" % (case["decoder"], case["n"], "".join(",%s=%s" % kv for kv in sorted(case["extra"].items())))

    _fn = LoopVariant._fn
    functions = LoopVariant.functions

    def inputs(self, case):
        return {"data": Bytes(case["n"])}

    def interp_config(self, case):
        from .converter import l0_contracts

        return {"contracts": l0_contracts()}

    loop_bound = 72  # iteration_bound(32): the largest buffer of the thorough tier; per case the clause uses 2n+8
    concrete_loop_bound = 72

    def run(self, X, case, a):
        cls, fn, kind = self._fn(case)
        kw = dict(case["extra"])
        args = [a.data]
        if "_type" in kw:
            args = [kw.pop("_type"), a.data]
        if kind == "class":
            args = [cls] + args
        if X.symbolic:
            X.ctx.loop_bound = X.ctx.concrete_loop_bound = iteration_bound(case["n"])
            return X.call(fn, *args, **kw)
        try:
            r, n = run_with_budget(fn, args, kw, iteration_bound(case["n"]) + 1)
            return r
        except _Budget:
            from pyvc.values import LoopBound

            raise LoopBound()

    def ensures(self, case, a, out, X):
        yield "C11", "no-loop-of-the-decoder-iterates-more-than-2*len+8-times", out.kind != "loopbound"


class ReadCdGrid(Unit):
    native_timeout = 0  # runs long by design (own budgets / child processes): no per-call alarm
    """READ CD decoder over the whole grid of its request arguments (expected sector type x main channel selection x
    C2 error information x sub-channel selection x transfer length incl. 0 / omitted): every call returns or raises within
    the iteration bound.  Native runs under a loop-header budget."""

    name = "termination/readcd-argument-grid"
    properties = ("C11",)
    level = "bounded"
    bound_note = "quick: one 2400-byte buffer, est 0..5 x mcsb 00h..F8h x c2ei 0,1,3 x scsb 0,2,7 x tl omitted,0,2; thorough: buffers of 0, 2352, 4800 bytes and the full grid; concrete native runs counting loop-header executions against 2*len+8"
    witness = False

    def cases(self, tier):
        self._tier = tier
        return [{"est": e, "tier": tier} for e in range(0, 6)]

    def case_id(self, case):
        return "est=%d" % case["est"]

    def run(self, X, case, a):
        from .datain import cls_of

        cls = cls_of("scsi_cdb_readcd", "ReadCd")
        d = cls.__dict__["unmarshall_datain"]
        fn = d.__func__ if isinstance(d, (classmethod, staticmethod)) else d
        bad = []
        runs = 0
        thorough = case.get("tier", "quick") != "quick"
        bufs = (bytes(0), bytes(2352), bytes((i * 7 + 1) & 0xFF for i in range(4800))) if thorough else (bytes((i * 7 + 1) & 0xFF for i in range(2400)),)
        for buf in bufs:
            for m in range(0, 32):
                for c2 in (0, 1, 2, 3) if thorough else (0, 1, 3):
                    for sc in (0, 1, 2, 4, 7) if thorough else (0, 2, 7):
                        for tl in (None, 0, 1, 2) if thorough else (None, 0, 2):
                            if len(bad) >= 3:
                                continue  # enough counterexamples for this case
                            kw = {"lba": 16, "est": case["est"], "mcsb": m << 3, "c2ei": c2, "scsb": sc}
                            if tl is not None:
                                kw["tl"] = tl
                            args = [bytearray(buf)]
                            if isinstance(d, classmethod):
                                args = [cls] + args
                            runs += 1
                            try:
                                run_with_budget(fn, args, kw, iteration_bound(len(buf)) + 1, max_events=60000)
                            except _Budget:
                                bad.append("len=%d %s" % (len(buf), " ".join("%s=%s" % kv for kv in sorted(kw.items()))))
                            except Exception:
                                pass  # raising is a way of returning
        return runs, bad

    def ensures(self, case, a, out, X):
        if out.kind != "return" or out.value is None:
            yield "C11", "grid-evaluated (%s)" % out.describe()[:60], False
            return
        runs, bad = out.value
        yield "C11", "grid-nonempty", runs > 500
        yield "C11", "every-call-of-the-grid-stays-within-the-iteration-bound%s" % ((" (exceeded: " + "; ".join(bad[:3]) + ")") if bad else ""), not bad


def replay_native_budget(unit, case, inputs):
    pass


register(LoopVariant())
register(RangeLoops())
register(ReadCdGrid())
register(LoopInventory())
register(BoundedTermination())

# contracts.cdb_codec -- C02: CDB decoding is the exact inverse of CDB encoding, for every command class.
#
# The library names CDB fields with its own keys; the contract does not read those names from the layout
# tables.  It discovers, by probing the real code with concrete commands, under which key each constructor
# argument comes back, and then proves for all argument values at once that decode(build(args)) returns every
# argument (at the width the *standard* gives the field), that re-encoding reproduces the bytes, and that
# decode/encode are inverse on every byte string of the right length whose undefined bits are zero.
import inspect

from pyvc import values as V
from pyvc.unit import Unit, U, Bytes, register
from spec import cdb_layouts as L
from . import common as C
from .cdb_commands import sets_offering, BLOCK_CLASSES, STRUCTURED


def _ctor_kwargs(cls, key, values, data_obj):
    sig = inspect.signature(cls.__init__)
    kw = {p: v for p, v in values.items() if p in sig.parameters}
    if "blocksize" in sig.parameters and "blocksize" not in kw:
        kw["blocksize"] = 1
    if "data" in sig.parameters and L.CDB[key].data[0] in ("out_caller", "out_caller_ndob"):
        kw["data"] = data_obj
    return kw


class CodecUnit(Unit):
    properties = ("C02", "C09")
    frame_check = True

    def __init__(self, cls):
        self.cls = cls
        self.key = L.layout_key(cls)
        self.layout = L.CDB[self.key]
        self.name = "codec/" + self.key
        self._probe = None
        self._data = bytearray(8)

    def functions(self):
        from pyscsi.pyscsi.scsi_command import SCSICommand

        return [SCSICommand.marshall_cdb, SCSICommand.unmarshall_cdb, SCSICommand.build_cdb, self.cls.__init__]

    def cases(self, tier):
        sets = sets_offering(self.key)
        if tier == "quick":
            sets = sets[:1]
        out = []
        for s, how in sets:
            for sc in ("args", "bytes"):
                out.append({"set": s, "how": list(how), "scenario": sc})
        return out

    def case_id(self, case):
        return "set=%s,%s" % (case["set"], case["scenario"])

    def interp_config(self, case):
        from .converter import l0_contracts

        return {"contracts": l0_contracts()}

    def inputs(self, case):
        if case["scenario"] == "args":
            return {p: U(f.width) for p, f in self.layout.fields.items()}
        return {"raw": Bytes(self.layout.length)}

    def requires(self, case, a):
        if case["scenario"] == "bytes":
            lay = self.layout
            yield a.raw[0] == lay.opcode
            for i in range(lay.length):
                m = lay.reserved_mask(i)
                if m:
                    yield (a.raw[i] & m) == 0

    def opcode_obj(self, case):
        return C.find_opcode(case["set"], tuple(case["how"]))

    # ---- probing: which key of the decoded dictionary carries which constructor argument
    def probe(self, case):
        """{param: [keys whose decoded value changes when only that argument changes]}; concrete native calls"""
        if self._probe is not None and self._probe[0] == case["set"]:
            return self._probe[1]
        op = self.opcode_obj(case)
        zero = {p: 0 for p in self.layout.fields}
        base = self.cls.unmarshall_cdb(self.cls(op, **_ctor_kwargs(self.cls, self.key, zero, self._data)).cdb)
        m = {}
        for p, f in self.layout.fields.items():
            vals = dict(zero)
            vals[p] = 1  # small probe values: all-ones allocation lengths would allocate gigabytes natively
            d = self.cls.unmarshall_cdb(self.cls(op, **_ctor_kwargs(self.cls, self.key, vals, self._data)).cdb)
            m[p] = [k for k in d if k not in base or d[k] != base[k]]
        self._probe = (case["set"], (m, sorted(base.keys())))
        return self._probe[1]

    def run(self, X, case, a):
        op = self.opcode_obj(case)
        if case["scenario"] == "args":
            cmd = X.call(self.cls, op, **_ctor_kwargs(self.cls, self.key, a, self._data))
            cdb = cmd.cdb
            dec = X.call(self.cls.unmarshall_cdb, cdb)
            re = X.call(self.cls.marshall_cdb, dec)
            return cdb, dec, re
        dec = X.call(self.cls.unmarshall_cdb, a.raw)
        re = X.call(self.cls.marshall_cdb, dec)
        dec2 = X.call(self.cls.unmarshall_cdb, re)
        return a.raw, dec, re, dec2

    def ensures(self, case, a, out, X):
        if out.kind != "return":
            yield "C02", "returns (raised %s)" % type(out.exc).__name__, False
            return
        lay = self.layout
        if case["scenario"] == "args":
            cdb, dec, re = out.value
            mapping, keys = self.probe(case)
            yield "C02", "decoded-is-dict", isinstance(dec, dict)
            for p in lay.fields:
                ks = mapping[p]
                yield "C02", "argument-%s-comes-back-under-exactly-one-key (keys: %s)" % (p, ks), len(ks) == 1
                if len(ks) == 1:
                    f = lay.fields[p]
                    if isinstance(f, L.ByteMap):
                        # SAT scatters the LBA bytes over the CDB; the library's dictionary carries the wire field
                        # (the big-endian integer over the byte span), not the caller's LBA -- compared as such
                        lo, hi = min(f.pos), max(f.pos)
                        yield "C02", "decode(build(args))[%s]==wire-field-of-%s" % (ks[0], p), dec[ks[0]] == L.BE(lo, hi - lo + 1).decode(cdb)
                    else:
                        yield "C02", "decode(build(args))[%s]==%s (all %d bits)" % (ks[0], p, f.width), dec[ks[0]] == a[p]
            used = {ks[0] for ks in mapping.values() if len(ks) == 1}
            for k in dec:
                if k not in used:
                    # keys that carry no argument: opcode, service action, derived lengths -- must be what the
                    # standard's decoder sees at one of those places
                    cands = [("opcode", L.Bits(0, 7, 0))]
                    if lay.sa_field is not None:
                        cands.append(("service_action", lay.sa_field))
                    cands += list(lay.derived.items())
                    yield "C02", "non-argument-key-%s-is-opcode/service-action/length" % k, V.bor(*[dec[k] == f.decode(cdb) for _, f in cands])
            yield "C02", "re-encode-length", len(re) == len(cdb)
            if len(re) == len(cdb):
                for i in range(len(cdb)):
                    yield "C02", "encode(decode(cdb))==cdb:byte%d" % i, re[i] == cdb[i]
        else:
            raw, dec, re, dec2 = out.value
            yield "C02", "re-encode-length", len(re) == len(raw)
            if len(re) == len(raw):
                for i in range(len(raw)):
                    yield "C02", "encode(decode(bytes))==bytes:byte%d" % i, re[i] == raw[i]
            yield "C02", "decode(encode(d))==d:keys", list(dec2.keys()) == list(dec.keys())
            if list(dec2.keys()) == list(dec.keys()):
                for k in dec:
                    yield "C02", "decode(encode(d))==d:%s" % k, dec2[k] == dec[k]

    def canaries(self, case, a, out, X):
        if out.kind == "return" and case["scenario"] == "bytes":
            raw, dec, re, dec2 = out.value
            yield "canary:re-encoded-opcode-differs", re[0] == raw[0] + 1


def build_units():
    units = []
    for cls in C.command_classes():
        key = L.layout_key(cls)
        if key not in L.CDB:
            continue
        if key in STRUCTURED:
            continue  # their constructors need structured data; the codec of their CDB is covered by contracts.dataout
        units.append(register(CodecUnit(cls)))
    return units


UNITS = build_units()

# contracts.facade -- L4: the SCSI facade (pyscsi/pyscsi/scsi.py).  C13: each facade call sends exactly one
# command, built with the attached device's operation code, and decodes what the device returned; C07 (facade
# half): a failing device makes the facade raise without decoding; C17: refused requests never reach the device.
#
# device.execute is replaced by its assumed contract (spec.stubs.world.RecordingDevice): records the call, may
# overwrite the contents of cmd.datain in place, changes nothing else, returns or raises.  unmarshall_datain of
# every command class is replaced by an uninterpreted result + trace event (its own contract is C04).
import importlib
import inspect
import itertools

from pyvc import values as V
from pyvc.unit import Unit, U, Flag, Bytes, register
from spec import cdb_layouts as L
from spec.stubs.world import World
from . import common as C
from .cdb_commands import sets_offering, lookups, BLOCK_CLASSES, LOOKUP

# facade method -> command class key (the property: "every facade method builds its command ...")
FACADE = {
    "exchangemedium": "ExchangeMedium", "getlbastatus": "GetLBAStatus", "inquiry": "Inquiry",
    "initializeelementstatus": "InitializeElementStatus",
    "initializeelementstatuswithrange": "InitializeElementStatusWithRange",
    "modeselect6": "ModeSelect6", "modesense6": "ModeSense6", "modesense10": "ModeSense10", "modeselect10": "ModeSelect10",
    "opencloseimportexportelement": "OpenCloseImportExportElement", "positiontoelement": "PositionToElement",
    "preventallowmediumremoval": "PreventAllowMediumRemoval", "read10": "Read10", "read12": "Read12", "read16": "Read16",
    "readcapacity10": "ReadCapacity10", "readcapacity16": "ReadCapacity16", "readcd": "ReadCd",
    "readdiscinformation": "ReadDiscInformation", "readelementstatus": "ReadElementStatus", "movemedium": "MoveMedium",
    "synchronizecache10": "SynchronizeCache10", "synchronizecache16": "SynchronizeCache16", "testunitready": "TestUnitReady",
    "write10": "Write10", "write12": "Write12", "write16": "Write16", "writesame16": "WriteSame16", "writesame10": "WriteSame10",
    "reportluns": "ReportLuns", "reportpriority": "ReportPriority", "reporttargetportgroups": "ReportTargetPortGroups",
    "atapassthrough12": "ATAPassThrough12", "atapassthrough16": "ATAPassThrough16",
    "persistentreservein": "PersistentReserveIn*", "persistentreserveout": "PersistentReserveOut",
    "extendedcopy4": "ExtendedCopy4", "extendedcopy5": "ExtendedCopy5",
}
PRIN = {0: "PersistentReserveInReadKeys", 1: "PersistentReserveInReadReservation",
        2: "PersistentReserveInReportCapabilities", 3: "PersistentReserveInReadFullStatus"}


def scsimod():
    return importlib.import_module("pyscsi.pyscsi.scsi")


def facade_methods():
    S = scsimod().SCSI
    return [n for n, f in vars(S).items() if inspect.isfunction(f) and not n.startswith("_") and n != "execute"]


def class_by_key(key):
    for c in C.command_classes():
        if L.layout_key(c) == key:
            return c
    raise KeyError(key)


class RecordingDevice:
    """assumed contract of device.execute as seen from the facade"""

    __pyvc_trusted__ = True

    def __init__(self, opcodes, world, fails=False, fill=0, resp=None):
        self.resp = resp  # the first bytes of what the device writes into the data-in buffer (an input of the unit)
        self.opcodes = opcodes
        self.devicetype = None
        self.world = world
        self.fails = fails
        self.fill = fill
        kinds = {"TypeError": TypeError, "OSError": OSError, "KeyError": KeyError}
        self.error = kinds.get(fails, RuntimeError)("device failure")

    def execute(self, cmd, en_raw_sense=False):
        self.world.trace.append(("device.execute", cmd, en_raw_sense, cmd.cdb, cmd.datain, cmd.dataout))
        if self.fails:
            raise self.error
        havoc_buffer(cmd.datain, self.fill, self.world, self.resp)

    def close(self):
        self.world.trace.append(("device.close", self))


def havoc_buffer(buf, fill, world, resp=None):
    """the device overwrites the data-in buffer in place: arbitrary contents.  Symbolically every byte is a fresh
    unknown, except that the first len(resp) bytes of the FIRST response are the unit's input `resp` (so that a
    counter-model determines them); natively the buffer gets resp followed by `fill`"""
    first = getattr(world, "counter", 0) == 0
    head = list(resp) if (resp is not None and first) else []
    if isinstance(buf, V.SBytes):
        world.counter = getattr(world, "counter", 0) + 1
        import z3

        buf.cells[:] = [head[i] if i < len(head) else V.SInt(z3.ZeroExt(V.W - 8, z3.BitVec("dev%d[%d]" % (world.counter, i), 8)), 0, 255) for i in range(len(buf.cells))]
    elif isinstance(buf, V.SZeros):
        import z3

        world.counter = getattr(world, "counter", 0) + 1
        arr = z3.Array("dev%d" % world.counter, z3.IntSort(), z3.BitVecSort(8))

        def cell(idx):
            r = V.SInt(z3.ZeroExt(V.W - 8, z3.Select(arr, V.to_intsort(idx))), 0, 255)
            for i in range(len(head) - 1, -1, -1):
                r = V.ite(V.compare("==", idx, i), head[i], r)
            return r

        buf.havoc = cell
    elif isinstance(buf, bytearray):
        world.counter = getattr(world, "counter", 0) + 1
        for i in range(len(buf)):
            buf[i] = (head[i] if i < len(head) else fill) & 0xFF


def unmarshall_contracts(world):
    """{function: handler} replacing every unmarshall_datain by an uninterpreted result and a trace event"""
    out = {}
    for cls in C.command_classes():
        d = cls.__dict__.get("unmarshall_datain")
        if d is None:
            continue
        kind = "class" if isinstance(d, classmethod) else "static" if isinstance(d, staticmethod) else "plain"
        fn = d.__func__ if kind in ("class", "static") else d

        def handler(I, *args, _cls=cls, _kind=kind, _fn=fn, **kwargs):
            if _kind in ("class", "plain"):
                args = args[1:]
            try:
                inspect.signature(_fn).bind(*(([_cls] if _kind != "static" else []) + list(args)), **kwargs)
            except TypeError as ex:
                raise TypeError("%s.unmarshall_datain() %s" % (_cls.__name__, ex)) from None
            res = V.SOpaque("unmarshalled:" + _cls.__name__, args, kwargs)
            res.truth = getattr(world, "decoded_truth", None)  # empty / non-empty result: an input of the contract
            world.trace.append(("unmarshall", _cls, args[0] if args else None, dict(kwargs), res))
            return res

        out[fn] = handler
    return out


import contextlib


@contextlib.contextmanager
def decoders_replaced(world):
    """native counterpart of unmarshall_contracts: every unmarshall_datain records the call and returns a token"""
    saved = []
    for cls in C.command_classes():
        d = cls.__dict__.get("unmarshall_datain")
        if d is None:
            continue
        kind = "class" if isinstance(d, classmethod) else "static" if isinstance(d, staticmethod) else "plain"
        fn = d.__func__ if kind in ("class", "static") else d

        def stub(*args, _cls=cls, _kind=kind, _fn=fn, **kwargs):
            inspect.signature(_fn).bind(*args, **kwargs)
            if _kind in ("class", "plain"):
                args = args[1:]
            res = V.SOpaque("unmarshalled:" + _cls.__name__, args, kwargs)
            res.truth = getattr(world, "decoded_truth", None)  # empty / non-empty result: an input of the contract
            world.trace.append(("unmarshall", _cls, args[0] if args else None, dict(kwargs), res))
            return res

        saved.append((cls, d))
        setattr(cls, "unmarshall_datain", classmethod(stub) if kind == "class" else staticmethod(stub) if kind == "static" else stub)
    try:
        yield
    finally:
        for cls, d in saved:
            setattr(cls, "unmarshall_datain", d)


# documented keyword arguments a decoder needs although its signature hides them in **kwargs (MMC READ CD:
# the sector layout is selected by these CDB fields); the facade must supply them, defaults included
DECODER_NEEDS = {"ReadCd": ("est", "mcsb", "c2ei", "scsb")}


class FacadeUnit(Unit):
    properties = ("C13", "C07", "C17", "C09")
    frame_check = True
    assumptions = ("assumed contract of device.execute as seen from the facade: records (cmd, en_raw_sense); may overwrite the contents of cmd.datain in place; changes nothing else; returns or raises",)

    def __init__(self, method):
        self.method = method
        self.key = FACADE.get(method)
        self.name = "facade/" + method
        self.fn = getattr(scsimod().SCSI, method)
        self.sig = inspect.signature(self.fn)

    def functions(self):
        S = scsimod().SCSI
        from pyscsi.pyscsi.scsi_command import SCSICommand

        return [self.fn, S.execute, SCSICommand.unmarshall]

    # ---- which class / layout for a case
    def key_for(self, case):
        if self.key == "PersistentReserveIn*":
            return PRIN[case["sa"]]
        return self.key

    def cls_for(self, case):
        return class_by_key(self.key_for(case))

    def optional_params(self, case):
        """constructor parameters reachable through the facade's **kwargs / defaulted parameters"""
        cls = self.cls_for(case)
        csig = inspect.signature(cls.__init__)
        fixed = [p for p, q in self.sig.parameters.items() if p != "self" and q.kind == q.POSITIONAL_OR_KEYWORD and q.default is q.empty]
        has_kwargs = any(q.kind == q.VAR_KEYWORD for q in self.sig.parameters.values())
        opts = []
        for p, q in self.sig.parameters.items():
            if p != "self" and q.kind == q.POSITIONAL_OR_KEYWORD and q.default is not q.empty:
                opts.append(p)
        if has_kwargs:
            for p, q in csig.parameters.items():
                if p in ("self", "opcode", "blocksize") or p in fixed or q.kind == q.VAR_KEYWORD:
                    continue
                if q.default is not q.empty and p not in opts:
                    opts.append(p)
        return fixed, opts

    def subsets(self, opts, tier):
        opts = [o for o in opts if o not in ("data", "extra_tl", "target_descriptor_list", "cscd_descriptor_list",
                                             "segment_descriptor_list", "inline_data")]
        if tier == "quick" or len(opts) > 6:
            subs = [(), tuple(opts)] + [(o,) for o in opts]
        else:
            subs = [c for r in range(len(opts) + 1) for c in itertools.combinations(opts, r)]
        seen, out = set(), []
        for s in subs:
            if s not in seen:
                seen.add(s)
                out.append(s)
        return out

    def cases(self, tier):
        if self.key is None:
            return [{"unspecified": True}]
        out = []
        variants = [{}]
        if self.key == "PersistentReserveIn*":
            variants = [{"sa": k} for k in sorted(PRIN)]
        for v in variants:
            key = self.key_for(v)
            for s, how in sets_offering(key):
                base = dict(v, set=s, how=list(how))
                _, opts = self.optional_params(base)
                for sub in self.subsets(opts, tier):
                    # the device may fail with any exception type (the transports raise their own classes)
                    for fails in (False, "RuntimeError", "TypeError", "OSError") if sub == () else (False,):
                        out.append(dict(base, given=list(sub), fails=fails))
        return out

    def case_id(self, case):
        if case.get("unspecified"):
            return "unspecified"
        s = "set=%s,given=%s" % (case["set"], "+".join(case["given"]) or "none")
        if "sa" in case:
            s += ",sa=%d" % case["sa"]
        if case["fails"]:
            s += ",device-fails-with-%s" % case["fails"]
        return s

    def interp_config(self, case):
        from .converter import l0_contracts

        self.world = World()
        c = dict(l0_contracts())
        c.update(unmarshall_contracts(self.world))
        return {"contracts": c}

    # ---- inputs
    def inputs(self, case):
        if case.get("unspecified"):
            return {}
        lay = L.CDB[self.key_for(case)]
        fixed, opts = self.optional_params(case)
        d = {}
        for p in fixed + list(case["given"]):
            if p in lay.fields:
                d[p] = U(lay.fields[p].width)
            elif p in ("alloclen", "alloc_len") and lay.data[0] == "alloc_nocdb":
                d[p] = U(16)
        if self.key_for(case) in BLOCK_CLASSES or self.key_for(case) == "WriteSame16":
            d["blocksize"] = U(32)
        if self.key in ("ATAPassThrough12", "ATAPassThrough16") and "blocksize" in case["given"]:
            d["blocksize"] = U(16)
        from . import shapes

        for p, w in shapes.EXTRA_WIDTHS.get(self.method, {}).items():
            if p in case["given"]:
                d[p] = U(w)
        d["fill"] = U(8)
        d["resp"] = Bytes(12, mutable=False)
        d["decoded_truth"] = Flag()  # whether the decoder's result (an uninterpreted value here) is empty or not
        d["devicetype"] = U(5)  # the peripheral device type the attached device reported: any
        return d

    def structured_args(self, case, a):
        """arguments that are not CDB fields (caller data, parameter dictionaries)"""
        from . import shapes

        return shapes.facade_args(self.method, case, a)

    def run(self, X, case, a):
        S = scsimod().SCSI
        w = self.world if X.symbolic else World()
        self.world = w
        del w.trace[:]
        w.decoded_truth = a.get("decoded_truth")
        dev = RecordingDevice(C.table(case["set"]), w, fails=case["fails"], fill=a.get("fill", 0), resp=a.get("resp"))
        dev.devicetype = a.get("devicetype")
        self.dev = dev
        s = object.__new__(S)
        self.scsi = s
        s.device = dev
        s._blocksize = a.get("blocksize", 0) if "blocksize" not in case.get("given", ()) else 0
        fixed, opts = self.optional_params(case)
        lay = L.CDB[self.key_for(case)]
        kw = {}
        extra = self.structured_args(case, a)
        for p in fixed:
            if p in a:
                kw[p] = a[p]
            elif p in extra:
                kw[p] = extra[p]
            elif p == "service_action" and "sa" in case:
                kw[p] = case["sa"]
            else:
                raise AssertionError("contract has no value for facade parameter %s of %s" % (p, self.method))
        for p in case["given"]:
            if p in a:
                kw[p] = a[p]
            elif p in extra:
                kw[p] = extra[p]
            else:
                raise AssertionError("contract has no value for optional parameter %s of %s" % (p, self.method))
        for p, v in extra.items():
            if p not in kw and p not in fixed and p in ("kwargs",):
                kw.update(v)
        self.kw = kw
        if X.symbolic:
            return X.call(getattr(s, self.method), **kw)
        with decoders_replaced(w):
            return X.call(getattr(s, self.method), **kw)

    # ---- postconditions
    def ensures(self, case, a, out, X):
        if case.get("unspecified"):
            yield "C13", "facade-method-%s-has-a-contract" % self.method, False
            return
        w, dev = self.world, self.dev
        lay = L.CDB[self.key_for(case)]
        cls = self.cls_for(case)
        execs = w.events("device.execute")
        unms = w.events("unmarshall")
        refusal = self.refusal(case, a)
        if out.kind == "raise":
            if case["fails"] and execs:
                # C07: the device's error is passed on, nothing is decoded
                yield "C07", "facade-propagates-the-devices-error", out.exc is dev.error
                yield "C07", "nothing-decoded-after-a-failed-command", len(unms) == 0
                yield "C13", "exactly-one-execute", len(execs) == 1
                return
            name = type(out.exc).__name__
            if refusal is not None and out.raised(refusal[0]):
                yield "C17", "refused-only-when-specified:%s" % refusal[0], refusal[1]
                yield "C17", "refused-before-anything-is-sent", len(execs) == 0
                return
            yield "C13", "accepts-all-documented-arguments (raised %s: %s)" % (name, str(out.exc)[:80] if not V.contains_sym(list(out.exc.args)) else ""), False
            return
        if refusal is not None:
            yield "C17", "refused-whenever-specified:%s" % refusal[0], V.bnot(refusal[1])
        if case["fails"]:
            yield "C07", "failed-command-does-not-return-normally", False
            return
        cmd = out.value
        yield "C13", "exactly-one-execute", len(execs) == 1
        if len(execs) != 1:
            return
        _, ecmd, raw, ecdb, edin, edout = execs[0]
        yield "C13", "returned-object-is-the-command-that-was-executed", ecmd is cmd
        yield "C13", "command-class", type(cmd) is cls
        cdb = cmd.cdb
        yield "C13", "device-saw-the-commands-cdb-and-buffers", ecdb is cdb and edin is cmd.datain and edout is cmd.dataout
        op = C.find_opcode(case["set"], tuple(case["how"]))
        yield "C13", "cdb-is-byte-buffer", isinstance(cdb, (bytearray, V.SBytes)) and len(cdb) == lay.length
        if not isinstance(cdb, (bytearray, V.SBytes)) or len(cdb) != lay.length:
            return
        yield "C13", "opcode-is-the-attached-sets-value", cdb[0] == op.value
        if lay.sa is not None:
            yield "C13", "service-action", lay.sa_field.decode(cdb) == lay.sa
        csig = inspect.signature(cls.__init__)
        for p, f in lay.fields.items():
            if p in self.kw and p in a:
                yield "C13", "argument-reaches-cdb:%s" % p, f.decode(cdb) == a[p]
            elif p == "service_action" and "sa" in case:
                yield "C13", "argument-reaches-cdb:service_action", f.decode(cdb) == case["sa"]
            elif p not in self.kw and p in csig.parameters and csig.parameters[p].default is not inspect.Parameter.empty:
                dflt = csig.parameters[p].default
                if p in self.sig.parameters and self.sig.parameters[p].default is not inspect.Parameter.empty:
                    dflt = self.sig.parameters[p].default
                if isinstance(dflt, int):
                    yield "C13", "default-reaches-cdb:%s=%r" % (p, dflt), f.decode(cdb) == dflt
        for i in range(lay.length):
            m = lay.reserved_mask(i)
            if m:
                yield "C13", "reserved-bits-zero:byte%d" % i, (cdb[i] & m) == 0
        # decoding: only after execute, on the very buffer the device filled, result stored on the command
        has_decoder = "unmarshall_datain" in cls.__dict__ or any("unmarshall_datain" in k.__dict__ for k in cls.__mro__[1:-1] if k.__name__ != "SCSICommand")
        if True:
            if has_decoder:
                yield "C13", "decoded-exactly-once", len(unms) == 1
                if len(unms) == 1:
                    _, ucls, udata, ukw, ures = unms[0]
                    yield "C13", "decoded-after-execute", w.trace.index(unms[0]) > w.trace.index(execs[0])
                    yield "C13", "decoded-the-buffer-the-device-filled", udata is cmd.datain
                    yield "C13", "result-is-the-decoders-output", cmd.result is ures
                    # the real decoder accepts exactly the keyword arguments the facade hands it (probed natively on
                    # an all-zero buffer; only argument-plumbing errors count, the decoder's behaviour is C04)
                    probe_kw = {k: (0 if V.is_sym(v) else v) for k, v in ukw.items()}
                    try:
                        cls.unmarshall_datain(bytearray(64), **probe_kw)
                        plumbing = None
                    except (KeyError, TypeError) as ex:
                        plumbing = "%s: %s" % (type(ex).__name__, ex)
                    except Exception:
                        plumbing = None
                    yield "C13", "decoder-accepts-the-arguments-the-facade-passes (%s)" % plumbing, plumbing is None
                    if self.key_for(case) == "ReadCd":
                        for need in DECODER_NEEDS["ReadCd"]:
                            exp = a[need] if need in a else csig.parameters[need].default
                            yield "C13", "decoder-uses-the-cdbs-%s" % need, ukw.get(need, 0) == exp
                    if self.key_for(case) == "Inquiry":
                        yield "C13", "decoder-receives-evpd", ukw.get("evpd", 0) == (a["evpd"] if "evpd" in a else 0)
            else:
                yield "C13", "nothing-decoded-for-a-command-without-decoder", len(unms) == 0


    def refusal(self, case, a):
        key = self.key_for(case)
        if key in BLOCK_CLASSES:
            return ("MissingBlocksizeException", a.blocksize == 0)
        if key == "WriteSame16":
            ndob = a["ndob"] if "ndob" in a else 0
            return ("MissingBlocksizeException", V.band(ndob == 0, a.blocksize == 0))
        if key in ("ATAPassThrough12", "ATAPassThrough16"):
            bs = a["blocksize"] if "blocksize" in a else 0
            return ("MissingBlocksizeException", V.band(a.byte_block != 0, a.t_type != 0, a.t_length != 0, bs == 0))
        return None

    def canaries(self, case, a, out, X):
        if out.kind == "return" and not case.get("unspecified") and not case["fails"]:
            yield "canary:opcode-off-by-one", out.value.cdb[0] == C.find_opcode(case["set"], tuple(case["how"])).value + 1


def _same(x, y):
    try:
        return x == y
    except Exception:
        return False


class ExecuteFlag(Unit):
    """SCSI.execute(cmd[, en_raw_sense]) hands exactly the caller's raw-sense flag (False when omitted) to the device,
    whatever class the command object has: a CHECK CONDITION is only ever captured as raw sense when the caller asked"""

    name = "facade/execute:raw-sense-flag"
    properties = ("C07", "C13")
    witness = False

    def functions(self):
        return [scsimod().SCSI.execute]

    def run(self, X, case, a):
        from .isolation import _simple_classes
        from .cdb_codec import _ctor_kwargs
        from .cdb_commands import sets_offering

        bad, n = [], 0
        for cls in sorted(_simple_classes(), key=lambda c: L.layout_key(c)):
            key = L.layout_key(cls)
            sets = sets_offering(key)
            if not sets:
                continue
            st, how = sets[0]
            lay = L.CDB[key]
            vals = {p: 1 for p in lay.fields}
            try:
                cmd = cls(C.find_opcode(st, how), **_ctor_kwargs(cls, key, vals, bytearray(8)))
            except Exception:
                continue
            for given in ("omitted", False, True):
                w = World()
                s = object.__new__(scsimod().SCSI)
                s.device = RecordingDevice(C.table(st), w)
                s._blocksize = 512
                if given == "omitted":
                    s.execute(cmd)
                else:
                    s.execute(cmd, en_raw_sense=given)
                ev = w.events("device.execute")
                n += 1
                want = False if given == "omitted" else given
                if len(ev) != 1 or ev[0][2] is not want or ev[0][1] is not cmd:
                    bad.append("%s with en_raw_sense %s: device saw %s" % (key, given, [e[2] for e in ev]))
        return n, bad

    def ensures(self, case, a, out, X):
        if out.kind != "return":
            yield "C07", "execute-flag-sweep-completes (raised %s: %s)" % (type(out.exc).__name__, str(out.exc)[:60]), False
            return
        n, bad = out.value
        yield "C07", "execute-flag-sweep-nonempty", n > 100
        for p in ("C07", "C13"):
            yield p, "execute-hands-the-callers-raw-sense-flag-to-the-device%s" % (" (%s)" % "; ".join(bad[:3]) if bad else ""), not bad


class PRInRefusal(Unit):
    """persistentreservein: every integer that is not a defined service action is refused with ValueError"""

    name = "facade/persistentreservein:refusal"
    properties = ("C17",)

    def functions(self):
        return [scsimod().SCSI.persistentreservein]

    def cases(self, tier):
        return [{"set": s} for s, how in sets_offering("PersistentReserveInReadKeys")]

    def inputs(self, case):
        return {"sa": U(lo=-(1 << 64), hi=1 << 64)}

    def interp_config(self, case):
        from .converter import l0_contracts

        self.world = World()
        c = dict(l0_contracts())
        c.update(unmarshall_contracts(self.world))
        return {"contracts": c}

    def run(self, X, case, a):
        w = self.world if X.symbolic else World()
        self.world = w
        del w.trace[:]
        s = object.__new__(scsimod().SCSI)
        s.device = RecordingDevice(C.table(case["set"]), w)
        s._blocksize = 0
        return X.call(s.persistentreservein, a.sa)

    def ensures(self, case, a, out, X):
        defined = V.bor(a.sa == 0, a.sa == 1, a.sa == 2, a.sa == 3)
        sent = self.world.events("device.execute")
        if out.kind == "raise":
            yield "C17", "ValueError-for-unknown-service-action (got %s)" % type(out.exc).__name__, isinstance(out.exc, ValueError)
            yield "C17", "refused-only-if-undefined", V.bnot(defined)
            yield "C17", "nothing-sent", len(sent) == 0
        else:
            yield "C17", "accepted-only-if-defined", defined
            yield "C17", "one-command-sent", len(sent) == 1
            if len(sent) == 1:
                yield "C17", "service-action-in-cdb", (sent[0][3][1] & 0x1F) == a.sa

    def canaries(self, case, a, out, X):
        if out.kind == "return":
            yield "canary:accepted-service-action-7", a.sa == 7


class FacadeAgain(FacadeUnit):
    """'each facade call ...' at any position of a history: the same method called a second time on the same SCSI
    object with the same arguments sends one more command with the same CDB and returns in the same way"""

    properties = ("C13", "C12")
    frame_check = False

    def __init__(self, method):
        FacadeUnit.__init__(self, method)
        self.name = "facade/" + method + ":again"

    def cases(self, tier):
        cs = [c for c in FacadeUnit.cases(self, tier) if not c.get("unspecified") and not c["fails"] and not c["given"]]
        seen, out = set(), []
        for c in cs:
            k = c.get("sa")
            if k not in seen:
                seen.add(k)
                out.append(c)
        return out

    def run(self, X, case, a):
        self.first_trace = None  # (set once the first call has returned)
        first = FacadeUnit.run(self, X, case, a)
        s = self.scsi
        self.first_trace = list(self.world.trace)
        if X.symbolic:
            second = X.call(getattr(s, self.method), **self.kw)
        else:
            with decoders_replaced(self.world):
                second = X.call(getattr(s, self.method), **self.kw)
        return first, second

    def ensures(self, case, a, out, X):
        # (a history property of the facade: reported under C13 and, for the data path, under C12)
        for p, n, c in self._clauses(case, a, out, X):
            yield "C13", n, c
            yield "C12", n, c

    def _clauses(self, case, a, out, X):
        if out.kind != "return":
            if self.first_trace is None:
                # the first call was refused (e.g. no block size): nothing may have been sent
                yield "C13", "refused-call-sends-nothing (%s)" % out.describe()[:70], not self.world.events("device.execute")
            else:
                yield "C13", "second-call-returns-like-the-first (%s)" % out.describe()[:70], False
            return
        n1 = len([t for t in self.first_trace if t[0] == "device.execute"])
        execs = self.world.events("device.execute")
        yield "C13", "second-call-sends-exactly-one-more-command", n1 == 1 and len(execs) == 2
        if n1 == 1 and len(execs) == 2:
            c1, c2 = execs[0][3], execs[1][3]
            yield "C13", "second-call-sends-the-same-cdb", V.bytes_eq(c1, c2) if V.is_buffer(c1) and V.is_buffer(c2) else False
            yield "C13", "second-call-returns-a-new-command-object", out.value[0] is not out.value[1]

    def canaries(self, case, a, out, X):
        return []


def build_units():
    us = []
    for m in facade_methods():
        us.append(register(FacadeUnit(m)))
        if FACADE.get(m) is not None:
            us.append(register(FacadeAgain(m)))
    us.append(register(PRInRefusal()))
    us.append(register(ExecuteFlag()))
    return us


UNITS = build_units()

# contracts.datain -- C04: well-formed device responses are decoded to the values the device sent.
#
# For every format the *spec* encoder (spec.data_formats, the standard's positions) builds the response from
# symbolic field values; the real parser is run on it; every key the standard defines must come back with the
# encoded value, lists whole and in order, nothing beyond the reported length.
import importlib

from pyvc import values as V
from pyvc.unit import Unit, U, Bytes, register, Undecided
from spec import data_formats as D
from spec.formats import Fmt, Blob, F
from . import common as C


def cls_of(modname, clsname):
    return getattr(importlib.import_module("pyscsi.pyscsi." + modname), clsname)


def field_inputs(fmt, prefix="", fixed=None):
    d = {}
    for k, f in fmt.fields.items():
        if fixed and k in fixed:
            continue
        d[prefix + k] = Bytes(f.nbytes, mutable=False) if isinstance(f, Blob) else U(f.width)
    return d


def field_values(fmt, a, prefix="", fixed=None):
    vals = {}
    for k in fmt.fields:
        if fixed and k in fixed:
            vals[k] = fixed[k]
        else:
            vals[k] = a[prefix + k]
    return vals


def mkbuf(X, cells):
    cells = list(cells)
    if X.symbolic:
        return V.SBytes(cells, True)
    return bytearray(cells)


def buffer_untouched(buf, cells0):
    """decoding reads the data-in buffer: afterwards it is still what the device left (same length, same bytes)"""
    now = list(buf)
    same_len = len(now) == len(cells0)
    yield "C04", "decoder-leaves-the-data-in-buffer-as-the-device-left-it:length (%d bytes before, %d after)" % (len(cells0), len(now)) if not same_len else "decoder-leaves-the-data-in-buffer-as-the-device-left-it:length", same_len
    if same_len:
        eq = True
        for x, y in zip(now, cells0):
            if x is not y:
                eq = V.band(eq, x == y)
        yield "C04", "decoder-leaves-the-data-in-buffer-as-the-device-left-it:bytes", eq


def lookup(result, dotted):
    cur = result
    for part in dotted.split("."):
        if not isinstance(cur, dict) or part not in cur:
            return _MISSING
        cur = cur[part]
    return cur


_MISSING = object()


def same(got, exp):
    if got is _MISSING:
        return False
    if V.is_buffer(got) or isinstance(exp, (list, bytes, bytearray, V.SBytes)):
        return V.bytes_eq(got, exp if V.is_buffer(exp) else V.SBytes(list(exp)) if V.contains_sym(list(exp)) else bytes(exp)) if V.is_buffer(got) else False
    return got == exp


class FixedDecode(Unit):
    """one fixed-size format, all field values symbolic at once"""

    properties = ("C04",)

    def __init__(self, name, parser, fmt, kwargs=None, fixed=None, combine=None, drop=(), pad_to=None, short=()):
        self.short = tuple(short)  # [(size, {length field: value})]: well-formed responses shorter than the full format
        self.name = "decode/" + name
        self.parser = parser  # () -> callable
        self.fmt = fmt
        self.kwargs = kwargs or {}
        self.fixed = fixed or {}
        self.combine = combine or {}  # result key -> (msb spec key, lsb spec key)
        self.drop = set(drop)  # spec keys the library consumes without reporting (length fields)
        self.pad_to = pad_to

    def functions(self):
        f = self.parser()
        return [getattr(f, "__func__", f)]

    def cases(self, tier):
        cs = [{"tail": t} for t in ("none", "unused-buffer-space")] + [{"tail": "none", "short": i} for i in range(len(self.short))]
        # parameters of the decoder that the contract does not pass: a decoder may take request-side arguments (what the
        # caller ASKED for); the decoded values must still be those of the response the device SENT, whatever was asked
        extra = self.unknown_parameters()
        for name in extra:
            for v in self.request_values.get(name, (0, 1, 2, 3)):
                cs.append({"tail": "none", "request": [name, v]})
        return cs

    request_values = {}

    def unknown_parameters(self):
        import inspect

        try:
            f = self.parser()
            sig = inspect.signature(getattr(f, "__func__", f))
        except (TypeError, ValueError):
            return []
        names = [p.name for p in sig.parameters.values() if p.kind in (p.POSITIONAL_OR_KEYWORD, p.KEYWORD_ONLY)]
        names = [n for n in names if n not in ("cls", "self")][1:]  # the first one is the buffer
        return [n for n in names if n not in self.kwargs]

    def case_id(self, case):
        return "tail=%s%s%s" % (case["tail"], ",short-response-of-%d-bytes" % self.short[case["short"]][0] if "short" in case else "",
                                ",decoder-called-with-%s=%s" % tuple(case["request"]) if "request" in case else "")

    def interp_config(self, case):
        from .converter import l0_contracts

        return {"contracts": l0_contracts()}

    def _fixed(self, case):
        return dict(self.fixed, **self.short[case["short"]][1]) if "short" in case else self.fixed

    def inputs(self, case):
        d = field_inputs(self.fmt, fixed=self._fixed(case))
        if case["tail"] != "none":
            d["tail"] = Bytes(5, mutable=False)
        return d

    def run(self, X, case, a):
        vals = field_values(self.fmt, a, fixed=self._fixed(case))
        cells = self.fmt.encode(vals, size=self.pad_to)
        if case["tail"] != "none":
            cells = cells + list(a.tail)
        self.size = None
        if "short" in case:
            # the device returns only the first `size` bytes (its length field says so) into a buffer of that size
            self.size = self.short[case["short"]][0]
            cells = cells[:self.size]
        self.vals = vals
        kw = dict(self.kwargs)
        if "request" in case:
            kw[case["request"][0]] = case["request"][1]
        self.buf, self.cells0 = mkbuf(X, cells), list(cells)
        return X.call(self.parser(), self.buf, **kw)

    def ensures(self, case, a, out, X):
        if out.kind != "return":
            yield "C04", "decodes-without-error (raised %s)" % type(out.exc).__name__, False
            return
        res = out.value
        yield from buffer_untouched(self.buf, self.cells0)
        yield "C04", "result-is-dict", isinstance(res, dict)
        if not isinstance(res, dict):
            return
        vals = self.vals
        combined = set()
        for rk, (msb, lsb) in self.combine.items():
            combined |= {msb, lsb}
            yield "C04", "value:%s" % rk, same(lookup(res, rk), vals[msb] * 256 + vals[lsb])
        for k in self.fmt.fields:
            if k in combined or k in self.drop:
                continue
            if getattr(self, "size", None) is not None and self.fmt.fields[k].end > self.size:
                continue  # the field lies beyond the end of the short response: no value was sent for it
            yield "C04", "value:%s (%s)" % (k, self.fmt.fields[k].describe()), same(lookup(res, k), vals[k])

    def canaries(self, case, a, out, X):
        if out.kind == "return" and isinstance(out.value, dict):
            for k, f in self.fmt.fields.items():
                if k not in self.fixed and isinstance(f, F) and lookup(out.value, k) is not _MISSING:
                    yield "canary:%s-off-by-one" % k, lookup(out.value, k) == self.vals[k] + 1
                    return


def build_fixed_units():
    us = []
    inq = lambda: cls_of("scsi_cdb_inquiry", "Inquiry").unmarshall_datain
    # the minimal standard INQUIRY data is 36 bytes (ADDITIONAL LENGTH 31); 58 bytes up to the version descriptors' start
    us.append(FixedDecode("Inquiry:standard", inq, D.STANDARD_INQUIRY, kwargs={"evpd": 0}, short=[(36, {"additional_length": 31}), (58, {"additional_length": 53}), (5, {"additional_length": 0})]))
    for fmt in D.FIXED_VPD_PAGES:
        us.append(FixedDecode("Inquiry:vpd-%02X" % fmt.page_code, inq, fmt, kwargs={"evpd": 1}, fixed={"page_code": fmt.page_code}))
    us.append(FixedDecode("ReadCapacity10", lambda: cls_of("scsi_cdb_readcapacity10", "ReadCapacity10").unmarshall_datain, D.READ_CAPACITY_10))
    # (READ CAPACITY(16) data has no length field: a smaller ALLOCATION LENGTH simply truncates it)
    us.append(FixedDecode("ReadCapacity16", lambda: cls_of("scsi_cdb_readcapacity16", "ReadCapacity16").unmarshall_datain, D.READ_CAPACITY_16, short=[(12, {}), (16, {})]))
    rr = lambda: cls_of("scsi_cdb_persistentreservein", "PersistentReserveInReadReservation").unmarshall_datain
    us.append(FixedDecode("PRIn:ReadReservation", rr, D.PRIN_READ_RESERVATION))
    us.append(FixedDecode("PRIn:ReadReservation-none", rr, D.PRIN_READ_RESERVATION_NONE))
    us.append(FixedDecode("PRIn:ReportCapabilities", lambda: cls_of("scsi_cdb_persistentreservein", "PersistentReserveInReportCapabilities").unmarshall_datain,
                          D.PRIN_REPORT_CAPABILITIES))
    rdi = lambda: cls_of("scsi_cdb_readdiscinformation", "ReadDiscInformation").unmarshall_datain
    comb = {k: (k + ".msb", k + ".lsb") for k in ("number_of_sessions", "first_track_number_in_last_session", "last_track_number_in_last_session")}
    us.append(FixedDecode("ReadDiscInformation:standard", rdi, D.DISC_INFORMATION_STANDARD, fixed={"disc_information_data_type": 0, "disc_information_length": 32}, combine=comb))
    us.append(FixedDecode("ReadDiscInformation:track-resources", rdi, D.DISC_INFORMATION_TRACK_RESOURCES, fixed={"disc_information_data_type": 1, "disc_information_length": 10}))
    us.append(FixedDecode("ReadDiscInformation:pow-resources", rdi, D.DISC_INFORMATION_POW_RESOURCES, fixed={"disc_information_data_type": 2, "disc_information_length": 14}))
    return us


UNITS = [register(u) for u in build_fixed_units()]


# ------------------------------------------------------------------------------------------------ list formats


class ListDecode(Unit):
    """a variable-length format: the shape (descriptor counts, optional parts) is enumerated up to K, every field
    value is symbolic.  Subclasses implement build(case, a) -> (cells, expected result)."""

    properties = ("C04",)
    level = "bounded"
    K = {"quick": 3, "thorough": 8}
    parser_ref = None

    def functions(self):
        f = self.parser()
        return [getattr(f, "__func__", f)]

    def counts(self, tier):
        return range(0, self.K[tier] + 1)

    def cases(self, tier):
        return [{"k": k, "tail": t} for k in self.counts(tier) for t in ("none", "unused-buffer-space")]

    def interp_config(self, case):
        from .converter import l0_contracts

        return {"contracts": l0_contracts()}

    def kwargs(self, case):
        return {}

    def run(self, X, case, a):
        cells, expected = self.build(case, a)
        if case.get("tail", "none") != "none":
            cells = list(cells) + list(a.tail)
        self.expected = expected
        self.buf, self.cells0 = mkbuf(X, cells), list(cells)
        return X.call(self.parser(), self.buf, **self.kwargs(case))

    def tail_input(self, case, d):
        if case.get("tail", "none") != "none":
            d["tail"] = Bytes(7, mutable=False)
        return d

    def ensures(self, case, a, out, X):
        if out.kind != "return":
            yield "C04", "decodes-without-error (raised %s: %s)" % (type(out.exc).__name__, str(out.exc)[:60] if not V.contains_sym(list(out.exc.args)) else ""), False
            return
        yield from buffer_untouched(self.buf, self.cells0)
        for path, cond in V.deep_eq(self.project(out.value), self.expected):
            yield "C04", "decoded%s" % (path or "/"), cond

    def project(self, result):
        """restrict the library's result to the keys the spec speaks about (extra keys are listed as unchecked)"""
        return result

    def canaries(self, case, a, out, X):
        return []


def items_inputs(fmt, k, prefix):
    d = {}
    for i in range(k):
        d.update(field_inputs(fmt, prefix="%s%d." % (prefix, i)))
    return d


class GetLbaStatusDecode(ListDecode):
    name = "decode/GetLBAStatus"
    bound_note = "descriptor counts 0..3 (quick) / 0..8 (thorough); all field values symbolic"

    def parser(self):
        return cls_of("scsi_cdb_getlbastatus", "GetLBAStatus").unmarshall_datain

    def inputs(self, case):
        return self.tail_input(case, items_inputs(D.GET_LBA_STATUS_DESCRIPTOR, case["k"], "d"))

    def build(self, case, a):
        items = [field_values(D.GET_LBA_STATUS_DESCRIPTOR, a, "d%d." % i) for i in range(case["k"])]
        cells = D.encode_list(8, D.N(0, 4), 4, [D.GET_LBA_STATUS_DESCRIPTOR.encode(v) for v in items])
        return cells, {"lbas": items}


class ReportLunsDecode(ListDecode):
    name = "decode/ReportLuns"
    bound_note = GetLbaStatusDecode.bound_note

    def parser(self):
        return cls_of("scsi_cdb_report_luns", "ReportLuns").unmarshall_datain

    def inputs(self, case):
        return self.tail_input(case, items_inputs(D.REPORT_LUNS_ENTRY, case["k"], "d"))

    def build(self, case, a):
        items = [a["d%d.lun" % i] for i in range(case["k"])]
        cells = D.encode_list(8, D.N(0, 4), 8, [D.REPORT_LUNS_ENTRY.encode({"lun": v}) for v in items])
        return cells, {"luns": [{"lun%d" % i: v} for i, v in enumerate(items)]}


class PRInReadKeysDecode(ListDecode):
    name = "decode/PRIn:ReadKeys"
    bound_note = GetLbaStatusDecode.bound_note

    def parser(self):
        return cls_of("scsi_cdb_persistentreservein", "PersistentReserveInReadKeys").unmarshall_datain

    def inputs(self, case):
        d = items_inputs(D.PRIN_KEY, case["k"], "d")
        d["pr_generation"] = U(32)
        return self.tail_input(case, d)

    def build(self, case, a):
        items = [a["d%d.key" % i] for i in range(case["k"])]
        cells = D.encode_list(8, D.N(4, 4), 8, [D.PRIN_KEY.encode({"key": v}) for v in items])
        D.put_be(cells, 0, 4, a.pr_generation)
        return cells, {"pr_generation": a.pr_generation, "reservation_keys": items}


class RtpgDecode(ListDecode):
    name = "decode/ReportTargetPortGroups"
    bound_note = "0..2 groups (quick) / 0..3 (thorough) with 0..2 ports each, both header formats; all field values symbolic"

    def parser(self):
        return cls_of("scsi_cdb_report_target_port_groups", "ReportTargetPortGroups").unmarshall_datain

    def cases(self, tier):
        shapes = [(), (0,), (1,), (2,), (1, 0), (0, 2), (2, 1)]
        if tier != "quick":
            shapes += [(1, 1, 1), (2, 0, 2), (3,)]
        return [{"ports": list(s), "ext": e, "tail": t} for s in shapes for e in (0, 1) for t in ("none", "unused-buffer-space")]

    def case_id(self, case):
        return "ports=%s,ext=%d,tail=%s" % ("-".join(map(str, case["ports"])) or "none", case["ext"], case["tail"])

    def inputs(self, case):
        d = {}
        for g, np in enumerate(case["ports"]):
            d.update(field_inputs(D.RTPG_GROUP_DESCRIPTOR, "g%d." % g, fixed={"target_port_count": np}))
            for p in range(np):
                d["g%d.p%d" % (g, p)] = U(16)
        if case["ext"]:
            d["implicit_transition_time"] = U(8)
        return self.tail_input(case, d)

    def build(self, case, a):
        body, groups = [], []
        for g, np in enumerate(case["ports"]):
            gv = field_values(D.RTPG_GROUP_DESCRIPTOR, a, "g%d." % g, fixed={"target_port_count": np})
            ports = [a["g%d.p%d" % (g, p)] for p in range(np)]
            body.extend(D.RTPG_GROUP_DESCRIPTOR.encode(gv))
            for pv in ports:
                body.extend(D.RTPG_PORT_DESCRIPTOR.encode({"relative_target_port_id": pv}))
            groups.append(dict(gv, target_ports=[{"relative_target_port_id": pv} for pv in ports]))
        hdr = []
        exp = {"target_port_group_descriptors": groups}
        if case["ext"]:
            hdr = D.RTPG_EXT_HEADER.encode({"format_type": 1, "implicit_transition_time": a.implicit_transition_time})
            exp.update(format_type=1, implicit_transition_time=a.implicit_transition_time)
        else:
            exp.update(format_type=0)
        cells = [0, 0, 0, 0] + hdr + body
        D.put_be(cells, 0, 4, len(cells) - 4)
        return cells, exp


class ReadElementStatusDecode(ListDecode):
    name = "decode/ReadElementStatus"
    bound_note = "0..2 pages with 0..2 descriptors each, every element type, with and without volume tags; all field values symbolic"

    def parser(self):
        return cls_of("scsi_cdb_readelementstatus", "ReadElementStatus").unmarshall_datain

    def cases(self, tier):
        shapes = [[], [(1, 0, 0, 0)], [(2, 1, 0, 0)], [(3, 2, 1, 0)], [(4, 1, 0, 1)], [(2, 2, 1, 1)], [(1, 1, 0, 0), (3, 1, 0, 0)], [(2, 0, 0, 0), (4, 2, 0, 0)]]
        if tier != "quick":
            shapes += [[(t, 2, pv, av)] for t in (1, 2, 3, 4) for pv in (0, 1) for av in (0, 1)]
        out = []
        for s in shapes:
            for pad in (0, 4):
                out.append({"pages": [list(p) for p in s], "pad": pad, "tail": "none"})
        out.append({"pages": [[2, 1, 0, 0]], "pad": 0, "tail": "unused-buffer-space"})
        return out

    def case_id(self, case):
        return "pages=%s,pad=%d,tail=%s" % ("|".join("t%d*%d%s%s" % (t, n, "p" if pv else "", "a" if av else "") for t, n, pv, av in case["pages"]) or "none", case["pad"], case["tail"])

    def inputs(self, case):
        d = {"first_element_address": U(16), "num_elements": U(16)}
        for pi, (t, n, pv, av) in enumerate(case["pages"]):
            for di in range(n):
                d.update(field_inputs(D.RES_DESCRIPTOR[t], "p%d.d%d." % (pi, di)))
                if pv:
                    d["p%d.d%d.pvt" % (pi, di)] = Bytes(36, mutable=False)
                if av:
                    d["p%d.d%d.avt" % (pi, di)] = Bytes(36, mutable=False)
        return self.tail_input(case, d)

    def build(self, case, a):
        body, pages = [], []
        for pi, (t, n, pv, av) in enumerate(case["pages"]):
            edl = 12 + 36 * pv + 36 * av + case["pad"]
            descs, dcells = [], []
            for di in range(n):
                fv = field_values(D.RES_DESCRIPTOR[t], a, "p%d.d%d." % (pi, di))
                c = D.RES_DESCRIPTOR[t].encode(fv)
                e = dict(fv)
                if pv:
                    c += list(a["p%d.d%d.pvt" % (pi, di)])
                    e["primary_volume_tag"] = a["p%d.d%d.pvt" % (pi, di)]
                if av:
                    c += list(a["p%d.d%d.avt" % (pi, di)])
                    e["alternate_volume_tag"] = a["p%d.d%d.avt" % (pi, di)]
                c += [0] * case["pad"]
                dcells.extend(c)
                descs.append(e)
            ph = D.RES_PAGE_HEADER.encode({"element_type": t, "pvoltag": pv, "avoltag": av})
            D.put_be(ph, 2, 2, edl)
            D.put_be(ph, 5, 3, len(dcells))
            body.extend(ph + dcells)
            pages.append({"element_type": t, "pvoltag": pv, "avoltag": av, "element_descriptors": descs})
        cells = D.RES_HEADER.encode({"first_element_address": a.first_element_address, "num_elements": a.num_elements}) + body
        D.put_be(cells, 5, 3, len(cells) - 8)
        return cells, {"first_element_address": a.first_element_address, "num_elements": a.num_elements, "element_status_pages": pages}


for _u in (GetLbaStatusDecode(), ReportLunsDecode(), PRInReadKeysDecode(), RtpgDecode(), ReadElementStatusDecode()):
    UNITS.append(register(_u))


class ReportPriorityDecode(ListDecode):
    name = "decode/ReportPriority"
    bound_note = "0..3 descriptors (quick) with TransportIDs of 0 / 24 bytes; all field values symbolic"

    def parser(self):
        return cls_of("scsi_cdb_report_priority", "ReportPriority").unmarshall_datain

    def cases(self, tier):
        shapes = [(), (0,), (24,), (24, 0), (0, 24, 24)]
        return [{"tids": list(s), "tail": t} for s in shapes for t in ("none", "unused-buffer-space")]

    def case_id(self, case):
        return "tids=%s,tail=%s" % ("-".join(map(str, case["tids"])) or "none", case["tail"])

    def inputs(self, case):
        d = {}
        for i, n in enumerate(case["tids"]):
            d.update(field_inputs(D.REPORT_PRIORITY_DESCRIPTOR_HEAD, "d%d." % i, fixed={"adlen": n}))
            d["d%d.tid" % i] = Bytes(n, mutable=False)
        return self.tail_input(case, d)

    def build(self, case, a):
        body, items = [], []
        for i, n in enumerate(case["tids"]):
            fv = field_values(D.REPORT_PRIORITY_DESCRIPTOR_HEAD, a, "d%d." % i, fixed={"adlen": n})
            body.append(D.REPORT_PRIORITY_DESCRIPTOR_HEAD.encode(fv) + list(a["d%d.tid" % i]))
            items.append(dict(fv, transport_id=a["d%d.tid" % i]))
        cells = D.encode_list(4, D.N(0, 4), 4, body)
        return cells, {"priority_descriptors": items}


UNITS.append(register(ReportPriorityDecode()))


class ModeSenseDecode(ListDecode):
    """mode parameter list: header(6|10) + optional block descriptors + mode pages up to MODE DATA LENGTH"""

    bound_note = "0..2 mode pages of every page format the library names, with and without an 8-byte block descriptor; all field values symbolic"

    def __init__(self, ten):
        self.ten = ten
        self.name = "decode/ModeSense%d" % (10 if ten else 6)
        self.hdr = D.MODE_HEADER_10 if ten else D.MODE_HEADER_6

    def parser(self):
        if self.ten:
            return cls_of("scsi_cdb_modesense10", "ModeSense10").unmarshall_datain
        return cls_of("scsi_cdb_modesense6", "ModeSense6").unmarshall_datain

    def cases(self, tier):
        keys = sorted(D.MODE_PAGES, key=lambda k: (k[0], k[1] or 0))
        out = []
        for k in keys:
            for bdl in (0, 8):
                out.append({"pages": [list(k)], "bdl": bdl, "tail": "none"})
            out.append({"pages": [list(k)], "bdl": 0, "tail": "unused-buffer-space"})
        out.append({"pages": [], "bdl": 0, "tail": "none"})
        out.append({"pages": [], "bdl": 0, "tail": "unused-buffer-space"})
        out.append({"pages": [list(keys[0]), list(keys[2])], "bdl": 0, "tail": "none"})
        out.append({"pages": [list(keys[1]), list(keys[0])], "bdl": 8, "tail": "unused-buffer-space"})
        return out

    def case_id(self, case):
        return "pages=%d:%s,bdl=%d,tail=%s" % (len(case["pages"]), "+".join("%02X%s" % (p, "" if s is None else ".%02X" % s) for p, s in case["pages"]) or "-", case["bdl"], case["tail"])

    def _fixed(self, key):
        p, s = key
        f = {"page_code": p, "spf": 0 if s is None else 1}
        if s is not None:
            f["sub_page_code"] = s
        return f

    def inputs(self, case):
        d = field_inputs(self.hdr, "h.")
        for i, (p, s) in enumerate(case["pages"]):
            d.update(field_inputs(D.MODE_PAGES[(p, s)], "p%d." % i, fixed=self._fixed((p, s))))
        if case["bdl"]:
            d["blockdesc"] = Bytes(case["bdl"], mutable=False)
        return self.tail_input(case, d)

    def build(self, case, a):
        hv = field_values(self.hdr, a, "h.")
        cells = self.hdr.encode(hv)
        if case["bdl"]:
            cells += list(a.blockdesc)
        pages = []
        for i, (p, s) in enumerate(case["pages"]):
            fmt = D.MODE_PAGES[(p, s)]
            pv = field_values(fmt, a, "p%d." % i, fixed=self._fixed((p, s)))
            cells += fmt.encode(pv)
            pages.append(pv)
        if self.ten:
            D.put_be(cells, 0, 2, len(cells) - 2)
            D.put_be(cells, 6, 2, case["bdl"])
        else:
            D.put_be(cells, 0, 1, len(cells) - 1)
            D.put_be(cells, 3, 1, case["bdl"])
        return cells, dict(hv, mode_pages=pages)


UNITS.append(register(ModeSenseDecode(False)))
UNITS.append(register(ModeSenseDecode(True)))


# ------------------------------------------------------------------------------------------------ VPD pages with lists


def _vpd_header(a, page_code, total_len):
    cells = [0, 0, 0, 0]
    cells[0] = (a.peripheral_qualifier << 5) | a.peripheral_device_type
    cells[1] = page_code
    return cells


class VpdListDecode(ListDecode):
    def parser(self):
        return cls_of("scsi_cdb_inquiry", "Inquiry").unmarshall_datain

    def kwargs(self, case):
        return {"evpd": 1}

    def hdr_inputs(self):
        return {"peripheral_qualifier": U(3), "peripheral_device_type": U(5)}

    def finish(self, a, page_code, body):
        cells = _vpd_header(a, page_code, 0) + list(body)
        D.put_be(cells, 2, 2, len(cells) - 4)
        exp = {"peripheral_qualifier": a.peripheral_qualifier, "peripheral_device_type": a.peripheral_device_type, "page_code": page_code}
        return cells, exp


class VpdSupportedPages(VpdListDecode):
    name = "decode/Inquiry:vpd-00"
    bound_note = "0..3 (quick) / 0..8 supported page codes; values symbolic"

    def inputs(self, case):
        d = self.hdr_inputs()
        for i in range(case["k"]):
            d["page%d" % i] = U(8)
        return self.tail_input(case, d)

    def build(self, case, a):
        pages = [a["page%d" % i] for i in range(case["k"])]
        cells, exp = self.finish(a, 0x00, pages)
        exp["vpd_pages"] = pages
        return cells, exp


class VpdSerial(VpdListDecode):
    name = "decode/Inquiry:vpd-80"
    bound_note = "serial numbers of 0, 1, 8, 20 bytes; contents symbolic"

    def counts(self, tier):
        return (0, 1, 8, 20)

    def inputs(self, case):
        d = self.hdr_inputs()
        d["serial"] = Bytes(case["k"], mutable=False)
        return self.tail_input(case, d)

    def build(self, case, a):
        cells, exp = self.finish(a, 0x80, list(a.serial))
        exp["unit_serial_number"] = a.serial
        return cells, exp


class VpdDeviceIdentification(VpdListDecode):
    name = "decode/Inquiry:vpd-83"
    bound_note = "1..2 designation descriptors of every designator kind and NAA format (each kind alone, and pairs); all field values symbolic"

    def cases(self, tier):
        kinds = []
        for k, (t, mk, lens) in D.DESIGNATORS.items():
            for n in lens:
                kinds.append((k, n))
        out = [{"descs": [], "tail": "none"}]
        for k, n in kinds:
            out.append({"descs": [[k, n]], "tail": "none"})
        out.append({"descs": [["naa-6", 16], ["t10-vendor-id", 12]], "tail": "unused-buffer-space"})
        out.append({"descs": [["relative-target-port", 4], ["target-port-group", 4], ["scsi-name-string", 12]], "tail": "none"})
        if tier != "quick":
            for (k1, n1) in kinds:
                out.append({"descs": [[k1, n1], ["naa-5", 8]], "tail": "unused-buffer-space"})
        return out

    def case_id(self, case):
        return "descs=%s,tail=%s" % ("+".join("%s/%d" % (k, n) for k, n in case["descs"]) or "none", case["tail"])

    def _fmt(self, kind, n):
        t, mk, lens = D.DESIGNATORS[kind]
        return t, mk(n)

    def inputs(self, case):
        d = self.hdr_inputs()
        for i, (kind, n) in enumerate(case["descs"]):
            t, fmt = self._fmt(kind, n)
            d.update(field_inputs(D.DESIGNATION_HEADER, "d%d." % i, fixed={"designator_type": t, "designator_length": fmt.size}))
            fixed = {"naa": D.NAA_FIXED[kind]} if kind in D.NAA_FIXED else {}
            d.update(field_inputs(fmt, "d%d.v." % i, fixed=fixed))
        return self.tail_input(case, d)

    def build(self, case, a):
        body, descs = [], []
        for i, (kind, n) in enumerate(case["descs"]):
            t, fmt = self._fmt(kind, n)
            hv = field_values(D.DESIGNATION_HEADER, a, "d%d." % i, fixed={"designator_type": t, "designator_length": fmt.size})
            fixed = {"naa": D.NAA_FIXED[kind]} if kind in D.NAA_FIXED else {}
            dv = field_values(fmt, a, "d%d.v." % i, fixed=fixed)
            body += D.DESIGNATION_HEADER.encode(hv) + fmt.encode(dv)
            e = dict(hv, designator=dv)
            # PROTOCOL IDENTIFIER is meaningful only if PIV = 1 and ASSOCIATION is 1 or 2; the library omits it otherwise
            e["__protocol_identifier_valid"] = V.band(hv["piv"] == 1, V.bor(hv["association"] == 1, hv["association"] == 2))
            descs.append(e)
        cells, exp = self.finish(a, 0x83, body)
        exp["designator_descriptors"] = descs
        return cells, exp

    def ensures(self, case, a, out, X):
        if out.kind != "return":
            yield "C04", "decodes-without-error (raised %s)" % type(out.exc).__name__, False
            return
        res, exp = out.value, self.expected
        for k in ("peripheral_qualifier", "peripheral_device_type", "page_code"):
            yield "C04", "decoded/%s" % k, same(lookup(res, k), exp[k])
        got = res.get("designator_descriptors") if isinstance(res, dict) else None
        yield "C04", "decoded/designator_descriptors/len", isinstance(got, list) and len(got) == len(exp["designator_descriptors"])
        if not isinstance(got, list) or len(got) != len(exp["designator_descriptors"]):
            return
        for i, (g, e) in enumerate(zip(got, exp["designator_descriptors"])):
            valid = e.pop("__protocol_identifier_valid")
            for k, v in e.items():
                if k == "protocol_identifier":
                    yield "C04", "decoded/designator_descriptors[%d]/protocol_identifier-when-valid" % i, V.bor(V.bnot(valid), same(lookup(g, k), v))
                    yield "C04", "decoded/designator_descriptors[%d]/protocol_identifier-absent-when-not-valid" % i, V.bor(valid, "protocol_identifier" not in g)
                elif k == "designator":
                    for path, cond in V.deep_eq(g.get("designator"), v):
                        yield "C04", "decoded/designator_descriptors[%d]/designator%s" % (i, path), cond
                else:
                    yield "C04", "decoded/designator_descriptors[%d]/%s" % (i, k), same(lookup(g, k), v)


class VpdAtaInformation(FixedDecode):
    """ATA Information VPD page: the identification strings and the position of the IDENTIFY data"""

    def __init__(self):
        FixedDecode.__init__(self, "Inquiry:vpd-89", lambda: cls_of("scsi_cdb_inquiry", "Inquiry").unmarshall_datain, D.ATA_INFORMATION,
                             kwargs={"evpd": 1}, fixed={"page_code": 0x89}, drop=("signature.raw", "command_code"))
        self.unchecked = ("ATA device signature internals", "IDENTIFY general/specific configuration words", "COMMAND CODE (not exposed)")


for _u in (VpdSupportedPages(), VpdSerial(), VpdDeviceIdentification(), VpdAtaInformation()):
    UNITS.append(register(_u))


# ------------------------------------------------------------------------------------------------ PR IN READ FULL STATUS, TransportIDs

ISCSI_NAMES = ["iqn.1993-08.org.debian:01:abc", "iqn.x", "iqn.2001-04.com.example:storage:diskarrays-sn-a8675309", "a", "ab", "abc", "abcd"]


class TransportIdDecode(ListDecode):
    name = "decode/TransportID"
    bound_note = "every protocol kind the library names; binary port names symbolic; iSCSI names: 7 representative strings of lengths covering all padding residues, both formats"

    def parser(self):
        return cls_of("scsi_cdb_persistentreservein", "PersistentReserveInReadFullStatus").unmarshall_transport_id

    def cases(self, tier):
        out = [{"kind": k} for k in sorted(D.TRANSPORT_IDS)]
        for i in range(len(ISCSI_NAMES)):
            out.append({"kind": "iscsi", "name": i, "isid": None})
            out.append({"kind": "iscsi", "name": i, "isid": "0123456789ab"})
        return out

    def case_id(self, case):
        return ",".join("%s=%s" % kv for kv in sorted(case.items()))

    def inputs(self, case):
        if case["kind"] == "iscsi":
            return {}
        return field_inputs(D.TRANSPORT_IDS[case["kind"]], fixed={"protocol_id": D.TRANSPORT_PROTOCOL[case["kind"]], "tpid_format": 0})

    def build(self, case, a):
        if case["kind"] == "iscsi":
            name = ISCSI_NAMES[case["name"]]
            cells = D.iscsi_transport_id(name, case["isid"])
            exp = {"tpid_format": 0 if case["isid"] is None else 1, "protocol_id": 5, "iscsi_name": name}
            if case["isid"] is not None:
                exp["iscsi_initiator_session_id"] = case["isid"]
            return cells, exp
        fmt = D.TRANSPORT_IDS[case["kind"]]
        v = field_values(fmt, a, fixed={"protocol_id": D.TRANSPORT_PROTOCOL[case["kind"]], "tpid_format": 0})
        return fmt.encode(v), v


class PRInFullStatusDecode(ListDecode):
    name = "decode/PRIn:ReadFullStatus"
    bound_note = "0..3 full status descriptors with FC / SAS / iSCSI TransportIDs; numeric fields symbolic"

    def parser(self):
        return cls_of("scsi_cdb_persistentreservein", "PersistentReserveInReadFullStatus").unmarshall_datain

    def cases(self, tier):
        shapes = [[], ["fc"], ["sas"], ["iscsi"], ["fc", "iscsi"], ["sas", "rdma", "1394"]]
        return [{"tids": s, "tail": t} for s in shapes for t in ("none", "unused-buffer-space")]

    def case_id(self, case):
        return "tids=%s,tail=%s" % ("+".join(case["tids"]) or "none", case["tail"])

    def inputs(self, case):
        d = {"pr_generation": U(32)}
        for i, k in enumerate(case["tids"]):
            d.update(field_inputs(D.PRIN_FULL_STATUS_DESCRIPTOR_HEAD, "d%d." % i))
            if k != "iscsi":
                d.update(field_inputs(D.TRANSPORT_IDS[k], "d%d.t." % i, fixed={"protocol_id": D.TRANSPORT_PROTOCOL[k], "tpid_format": 0}))
        return self.tail_input(case, d)

    def build(self, case, a):
        body, items = [], []
        for i, k in enumerate(case["tids"]):
            hv = field_values(D.PRIN_FULL_STATUS_DESCRIPTOR_HEAD, a, "d%d." % i)
            if k == "iscsi":
                tcells = D.iscsi_transport_id(ISCSI_NAMES[0])
                tv = {"tpid_format": 0, "protocol_id": 5, "iscsi_name": ISCSI_NAMES[0]}
            else:
                tv = field_values(D.TRANSPORT_IDS[k], a, "d%d.t." % i, fixed={"protocol_id": D.TRANSPORT_PROTOCOL[k], "tpid_format": 0})
                tcells = D.TRANSPORT_IDS[k].encode(tv)
            c = D.PRIN_FULL_STATUS_DESCRIPTOR_HEAD.encode(hv)
            D.put_be(c, 20, 4, len(tcells))
            body.append(c + tcells)
            items.append(dict(hv, transport_id=tv))
        cells = D.encode_list(8, D.N(4, 4), 8, body)
        D.put_be(cells, 0, 4, a.pr_generation)
        return cells, {"pr_generation": a.pr_generation, "full_status": items}


# ------------------------------------------------------------------------------------------------ READ CD


def _buf(cells):
    cells = list(cells)
    return V.SBytes(cells, False) if V.contains_sym(cells) else bytes(cells)


class ReadCdDecode(ListDecode):
    name = "decode/ReadCd"
    bound_note = "transfer lengths 0..2, eleven representative (sector type, main channel, C2, sub-channel) layouts; every sector byte symbolic"
    LAYOUTS = [
        # est, mcsb (sync, subheader, header, user data, edc/ecc), c2ei, scsb
        (1, 0x02, 0, 0), (1, 0x02, 1, 2), (2, 0x1F, 0, 0), (2, 0x02, 0, 0), (2, 0x16, 2, 4), (3, 0x16, 0, 0), (3, 0x02, 1, 0),
        (4, 0x1F, 0, 0), (4, 0x0A, 0, 2), (5, 0x1E, 0, 0), (2, 0x02, 0, 1),
    ]

    def parser(self):
        return cls_of("scsi_cdb_readcd", "ReadCd").unmarshall_datain

    def cases(self, tier):
        return [{"layout": i, "tl": tl} for i in range(len(self.LAYOUTS)) for tl in ((0, 2) if tier == "quick" else (0, 1, 2, 3))]

    def case_id(self, case):
        return "est=%d,mcsb=%02X,c2ei=%d,scsb=%d,tl=%d" % (self.LAYOUTS[case["layout"]] + (case["tl"],))

    def kwargs(self, case):
        est, mcsb, c2, sc = self.LAYOUTS[case["layout"]]
        return {"lba": 16, "tl": case["tl"], "est": est, "mcsb": mcsb, "c2ei": c2, "scsb": sc}

    def parts(self, case):
        """[(result path, size, kind)] of one sector in wire order"""
        est, mcsb, c2, sc = self.LAYOUTS[case["layout"]]
        s = D.CD_SECTOR[est]
        out = []
        if mcsb & 0x10 and s["sync"]:
            out.append(("sync", 12, "blob"))
        if mcsb & 0x04 and s["header"]:
            out.append(("sector-header", 4, "header"))
        if mcsb & 0x08 and s["subheader"]:
            out.append(("sector-subheader", 8, "subheader"))
        if mcsb & 0x02:
            out.append(("data", s["user"], "blob"))
        if mcsb & 0x01 and s["edc"]:
            out.append(("edc", 4, "blob"))
            if s.get("zero"):
                out.append((None, s["zero"], "skip"))
            if s["ecc"]:
                out.append(("p-parity", 172, "blob"))
                out.append(("q-parity", 104, "blob"))
        if c2 == 1:
            out.append(("c2ei-data", 294, "blob"))
        elif c2 == 2:
            out.append(("c2ei.data", 296, "blob"))
        if sc == 2:
            out.append(("subchannel", 16, "q"))
        elif sc in (1, 4):
            out.append(("subchannel.data", 96, "blob"))
        return out

    def inputs(self, case):
        n = sum(p[1] for p in self.parts(case))
        return {"sectors": Bytes(n * case["tl"], mutable=False)}

    def build(self, case, a):
        cells = list(a.sectors)
        exp = {}
        pos = 0
        for l in range(16, 16 + case["tl"]):
            r = {}
            for path, size, kind in self.parts(case):
                chunk = cells[pos:pos + size]
                pos += size
                if kind == "skip":
                    continue
                if kind == "blob":
                    v = _buf(chunk)
                elif kind == "header":
                    v = D.CD_SECTOR_HEADER.decode(chunk)
                elif kind == "subheader":
                    v = [{"file-number": chunk[o], "channel-number": chunk[o + 1], "sub-mode": chunk[o + 2], "data": _buf(chunk[o:o + 4])} for o in (0, 4)]
                elif kind == "q":
                    v = dict(D.SUBCHANNEL_Q.decode(chunk), data=_buf(chunk))
                cur = r
                parts = path.split(".")
                for p in parts[:-1]:
                    cur = cur.setdefault(p, {})
                cur[parts[-1]] = v
            exp[l] = r
        return cells, exp


for _u in (TransportIdDecode(), PRInFullStatusDecode(), ReadCdDecode()):
    UNITS.append(register(_u))

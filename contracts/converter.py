# contracts.converter -- L0: the bit-field codec of pyscsi/utils/converter.py against spec functions (C10),
# and the contract handlers that stand in for encode_dict / decode_bits when a caller is verified modularly.
#
# Spec functions are formulated with division / modulo on the big-endian integer of the field's bytes, i.e.
# independently of the shift-and-xor loops of the implementation.
import importlib
import itertools

from pyvc import values as V
from pyvc.unit import Unit, U, Size, Bytes, Buf, MBuf, register
from . import common as C


def conv():
    return importlib.import_module("pyscsi.utils.converter")


# ------------------------------------------------------------------------------------------ spec functions


def nbytes(mask):
    return max(1, (mask.bit_length() + 7) // 8)


def tz(mask):
    return (mask & -mask).bit_length() - 1


def is_contiguous(mask):
    m = mask >> tz(mask)
    return m & (m + 1) == 0


def spec_int_to_ba(x, n):
    """cell i of the big-endian n-byte representation: floor(x / 256**(n-1-i)) mod 256"""
    return [(x // (256 ** (n - 1 - i))) % 256 for i in range(n)]


def spec_ba_to_int(cells):
    n = len(cells)
    tot = 0
    for i, c in enumerate(cells):
        tot = tot + c * (256 ** (n - 1 - i))
    return tot


def spec_decode_field(field_int, mask):
    """value of the field selected by `mask` in the big-endian integer of the field's bytes"""
    return (field_int // (1 << tz(mask))) & (mask >> tz(mask))


def spec_encode_bytes(value, mask):
    """the nbytes(mask) bytes that encoding xors into the buffer: value * 2**tz, big-endian, truncated"""
    nb = nbytes(mask)
    x = (value * (1 << tz(mask)))
    return [(x // (256 ** (nb - 1 - k))) % 256 for k in range(nb)]


# ------------------------------------------------------------------------------------------ mask families


def contiguous_family(max_bytes):
    fam = []
    for a in range(8):
        for w in range(1, 8 * max_bytes - a + 1):
            fam.append(((1 << w) - 1) << a)
    return fam


_REPO_LAYOUTS = None


def _is_notation(x):
    """[mask, byte offset] or ['b' | 'w' | 'dw', offset, length]: the two notations decode_bits / encode_dict understand"""
    if not isinstance(x, (list, tuple)):
        return False
    ints = lambda *vs: all(isinstance(i, int) and not isinstance(i, bool) for i in vs)
    if len(x) == 2:
        return ints(x[0], x[1])
    return len(x) == 3 and x[0] in ("b", "w", "dw") and ints(x[1], x[2])


def repo_layouts():
    """every class-level layout table of the package: {qualified name: dict}; collected mechanically"""
    global _REPO_LAYOUTS
    if _REPO_LAYOUTS is None:
        out = {}
        import pyscsi.pyscsi.scsi_sense as sense

        classes = list(C.command_classes()) + [sense.SCSICheckCondition]
        from pyscsi.pyscsi.scsi_command import SCSICommand

        for cls in classes + [SCSICommand]:
            for k, v in vars(cls).items():
                if isinstance(v, dict) and v and all(_is_notation(x) for x in v.values()) and all(isinstance(kk, str) for kk in v):
                    out["%s.%s.%s" % (cls.__module__.rsplit(".", 1)[-1], cls.__name__, k)] = v
        _REPO_LAYOUTS = out
    return _REPO_LAYOUTS


def repo_masks():
    ms = set()
    for lay in repo_layouts().values():
        for v in lay.values():
            if len(v) == 2 and isinstance(v[0], int) and not isinstance(v[0], bool) and v[0] > 0:
                ms.add(v[0])
    return sorted(ms)


def family(tier):
    fam = set(contiguous_family(9 if tier == "quick" else 16))
    fam |= set(repo_masks())
    return sorted(fam)


def in_proved_family(mask):
    return isinstance(mask, int) and mask > 0 and ((is_contiguous(mask) and nbytes(mask) <= 16) or mask in repo_masks())


# ------------------------------------------------------------------------------------------ contract handlers (modular mode)


def _store(I, buf, idx, v):
    from pyvc.builtins_model import _frame

    _frame(I).store_subscript(buf, idx, v)


def _load(I, buf, idx):
    from pyvc.builtins_model import _frame

    return _frame(I).subscript(buf, idx)


def encode_dict_contract(I, data_dict, check_dict, result):
    """contract of converter.encode_dict used at call sites:
    requires  every mask-kind layout entry used lies in the family proved by C10, and its value is an int >= 0
    ensures   for every key of data_dict (in its order) that check_dict knows: the field's bytes are xor-ed with
              spec_encode_bytes(value, mask); blob kinds are slice-assigned; nothing else is written"""
    real = conv().encode_dict
    ok = isinstance(data_dict, dict) and isinstance(check_dict, dict) and isinstance(result, (bytearray, V.SBytes))
    if ok:
        for key in data_dict.keys():
            if key in check_dict:
                val = check_dict[key]
                if not isinstance(val, (list, tuple)) or len(val) not in (2, 3):
                    ok = False
                elif len(val) == 2 and not (isinstance(val[0], int) and isinstance(val[1], int) and val[0] > 0):
                    ok = False
                elif len(val) == 2 and not isinstance(data_dict[key], (int, V.SInt)):
                    ok = False
                elif len(val) == 3 and val[0] not in ("b", "w", "dw"):
                    ok = False
    if not ok:
        I.ctx.notes.append("encode_dict: contract not applicable, body inlined")
        return I.run_function(real, [data_dict, check_dict, result], {})
    I.calls.append("contract:pyscsi.utils.converter.encode_dict")
    for key in list(data_dict.keys()):
        if key not in check_dict:
            continue
        value = data_dict[key]
        val = check_dict[key]
        if len(val) == 2:
            mask, pos = val
            I.ctx.oblige("requires(encode_dict):mask-in-proved-family:%s" % key, in_proved_family(mask))
            lo, _ = V.bounds(value)
            I.ctx.oblige("requires(encode_dict):value-nonnegative:%s" % key, V.compare(">=", value, 0) if lo is None or lo < 0 else True)
            enc = spec_encode_bytes(value, mask)
            for k, b in enumerate(enc):
                _store(I, result, pos + k, _load(I, result, pos + k) ^ b)
        else:
            kind, offset, length = val
            mult = {"b": 1, "w": 2, "dw": 4}[kind]
            _store(I, result, slice(offset, offset + length * mult), value)
    return None


def decode_bits_contract(I, data, check_dict, result_dict):
    """contract of converter.decode_bits used at call sites on buffers of known length"""
    real = conv().decode_bits
    ok = isinstance(check_dict, dict) and isinstance(result_dict, dict) and isinstance(data, (bytes, bytearray, V.SBytes))
    if ok:
        n = len(data)
        for key, val in check_dict.items():
            if not isinstance(val, (list, tuple)) or len(val) not in (2, 3):
                ok = False
            elif len(val) == 2 and not (isinstance(val[0], int) and isinstance(val[1], int) and val[0] > 0 and 0 <= val[1] and val[1] + nbytes(val[0]) <= n):
                ok = False  # short buffer: the clamping behaviour of slices is left to the real body
            elif len(val) == 3 and val[0] not in ("b", "w", "dw"):
                ok = False
    data = I.ctx.resolve(data)
    if isinstance(data, V.SBuf) and isinstance(check_dict, dict) and isinstance(result_dict, dict) and all(
            isinstance(v, (list, tuple)) and ((len(v) == 2 and isinstance(v[0], int) and v[0] > 0 and isinstance(v[1], int) and v[1] >= 0 and nbytes(v[0]) <= 32)
                                              or (len(v) == 3 and v[0] in ("b", "w", "dw"))) for v in check_dict.values()):
        return decode_bits_short_contract(I, data, check_dict, result_dict)
    if not ok:
        I.ctx.notes.append("decode_bits: contract not applicable, body inlined")
        return I.run_function(real, [data, check_dict, result_dict], {})
    I.calls.append("contract:pyscsi.utils.converter.decode_bits")
    for key in check_dict.keys():
        val = check_dict[key]
        if len(val) == 2:
            mask, pos = val
            I.ctx.oblige("requires(decode_bits):mask-in-proved-family:%s" % key, in_proved_family(mask))
            cells = [_load(I, data, pos + k) for k in range(nbytes(mask))]
            value = spec_decode_field(V.be_int(cells), mask)
        else:
            kind, offset, length = val
            mult = {"b": 1, "w": 2, "dw": 4}[kind]
            value = _load(I, data, slice(offset, offset + length * mult))
        I.ctx.writes.append((result_dict, "method:update", None))
        result_dict.update({key: value})
    return None


def sbuf_be_int(buf):
    """big-endian integer of a symbolic-length buffer view of at most 32 bytes: an if-then-else over its
    actual length (no path forking).  This is scsi_ba_to_int's contract instantiated per length (C10 proves the
    function for every length 0..32)."""
    import z3

    n = buf.n
    if isinstance(n, int):
        top = n
    else:
        top = n.hi
    if top is None or top > 32:
        return None
    off = V.to_intsort(buf.off)
    cells = [V.SInt(z3.ZeroExt(V.W - 8, z3.Select(buf.arr, z3.simplify(off + i))), 0, 255) for i in range(top)]
    if isinstance(n, int):
        return V.be_int(cells)
    val = V.be_int(cells)  # length == top
    for l in range(top - 1, -1, -1):
        val = V.ite(V.compare("==", n, l), V.be_int(cells[:l]), val)
    return val


def ba_to_int_contract(I, ba):
    real = conv().scsi_ba_to_int
    ba = I.ctx.resolve(ba)
    if isinstance(ba, V.SBuf):
        v = sbuf_be_int(ba)
        if v is not None:
            I.calls.append("contract:pyscsi.utils.converter.scsi_ba_to_int")
            return v
    return I.run_function(real, [ba], {})


def decode_bits_short_contract(I, data, check_dict, result_dict):
    """decode_bits on a buffer view of symbolic length: mask fields are the big-endian integer of the bytes that
    exist in data[pos : pos+nbytes] (slice clamping), shifted and masked; blobs are the clamped slices"""
    from pyvc.builtins_model import _frame

    I.calls.append("contract:pyscsi.utils.converter.decode_bits(short)")
    fr = _frame(I)
    for key in check_dict.keys():
        val = check_dict[key]
        if len(val) == 2:
            mask, pos = val
            I.ctx.oblige("requires(decode_bits):mask-in-proved-family:%s" % key, in_proved_family(mask))
            sl = fr.buf_slice(data, pos, pos + nbytes(mask))
            value = spec_decode_field(sbuf_be_int(sl), mask)
        else:
            kind, offset, length = val
            mult = {"b": 1, "w": 2, "dw": 4}[kind]
            value = fr.buf_slice(data, offset, offset + length * mult)
        I.ctx.writes.append((result_dict, "method:update", None))
        result_dict.update({key: value})
    return None


def l0_contracts():
    c = conv()
    return {c.encode_dict: encode_dict_contract, c.decode_bits: decode_bits_contract, c.scsi_ba_to_int: ba_to_int_contract}


# ------------------------------------------------------------------------------------------ C10 units


class IntToBa(Unit):
    name = "converter/scsi_int_to_ba"
    properties = ("C10",)

    def functions(self):
        return [conv().scsi_int_to_ba, conv().scsi_ba_to_int]

    def cases(self, tier):
        # the 256-bit integer model holds values below 2**255: sizes up to 31 bytes
        return [{"n": n} for n in range(0, 17 if tier == "quick" else 32)]

    def inputs(self, case):
        return {"x": U(lo=0, hi=256 ** case["n"] - 1)}

    def run(self, X, case, a):
        ba = X.call(conv().scsi_int_to_ba, a.x, case["n"])
        back = X.call(conv().scsi_ba_to_int, ba)
        # the array belongs to the caller, who may go on building on it (append a LUN list to a header, patch an NAA
        # nibble): converting the same value again afterwards still gives the conversion, in a new array
        self.first_cells = list(ba) if isinstance(ba, (bytearray, V.SBytes)) else None
        if isinstance(ba, V.SBytes) and ba.mutable:
            ba.cells.append(0xAA)
            if case["n"]:
                ba.cells[0] = (ba.cells[0] ^ 0xFF) if not V.is_sym(ba.cells[0]) else 0x5A
        elif isinstance(ba, bytearray):
            ba.append(0xAA)
            if case["n"]:
                ba[0] ^= 0xFF
        self.again = X.call(conv().scsi_int_to_ba, a.x, case["n"])
        return ba, back

    def ensures(self, case, a, out, X):
        if out.kind != "return":
            yield "C10", "returns (raised %s)" % type(out.exc).__name__, False
            return
        ba, back = out.value
        n = case["n"]
        yield "C10", "is-bytearray", isinstance(ba, (bytearray, V.SBytes)) and C.is_byte_cells(ba)
        first = self.first_cells
        yield "C10", "length", first is not None and len(first) == n
        if first is None or len(first) != n:
            return
        exp = spec_int_to_ba(a.x, n)
        for i in range(n):
            yield "C10", "big-endian:cell%d" % i, first[i] == exp[i]
        yield "C10", "ba_to_int(int_to_ba(x))==x", back == a.x
        again = self.again
        yield "C10", "converting-again-gives-a-new-array", again is not ba
        ok = isinstance(again, (bytearray, V.SBytes)) and len(again) == n
        yield "C10", "converting-again-after-the-caller-changed-its-array:length", ok
        if ok:
            for i in range(n):
                yield "C10", "converting-again-after-the-caller-changed-its-array:cell%d" % i, again[i] == exp[i]

    def canaries(self, case, a, out, X):
        if out.kind == "return" and case["n"] >= 2:
            yield "canary:little-endian", self.first_cells[0] == a.x % 256


class BaToInt(Unit):
    name = "converter/scsi_ba_to_int"
    properties = ("C10",)

    def functions(self):
        return [conv().scsi_ba_to_int, conv().scsi_int_to_ba]

    def cases(self, tier):
        return [{"n": n} for n in range(0, 17 if tier == "quick" else 32)]

    def inputs(self, case):
        return {"b": Bytes(case["n"])}

    def run(self, X, case, a):
        v = X.call(conv().scsi_ba_to_int, a.b)
        back = X.call(conv().scsi_int_to_ba, v, case["n"])
        return v, back

    def ensures(self, case, a, out, X):
        if out.kind != "return":
            yield "C10", "returns (raised %s)" % type(out.exc).__name__, False
            return
        v, back = out.value
        yield "C10", "value==sum(b[i]*256**(n-1-i))", v == spec_ba_to_int(list(a.b))
        yield "C10", "int_to_ba(ba_to_int(b))==b", V.bytes_eq(back, a.b)

    def canaries(self, case, a, out, X):
        if out.kind == "return" and case["n"] >= 1:
            yield "canary:value-off-by-one", out.value[0] == spec_ba_to_int(list(a.b)) + 1


def _mask_cases(tier):
    return [{"mask": "0x%X" % m} for m in family(tier)]


class EncodeField(Unit):
    """encode_dict with one mask-kind field at an arbitrary byte offset of an arbitrary buffer"""

    name = "converter/encode_dict:field"
    properties = ("C10",)
    assumptions = ("C10: the bit-mask family is finite: every contiguous run of 1..72 bits (quick) / 1..128 bits (thorough) at "
                   "every bit alignment, plus every mask that occurs in a layout table of the repository; a proof parametric in the mask is not attempted",)

    def functions(self):
        return [conv().encode_dict, conv().decode_bits, conv().scsi_int_to_ba, conv().scsi_ba_to_int]

    def cases(self, tier):
        return _mask_cases(tier)

    def inputs(self, case):
        m = int(case["mask"], 16)
        return {"buf": MBuf(maxlen=1 << 16), "off": Size(lo=0, hi=1 << 16), "value": U(lo=0, hi=m >> tz(m)), "j": Size(lo=0, hi=1 << 16)}

    def requires(self, case, a):
        m = int(case["mask"], 16)
        yield a.off + nbytes(m) <= V.buf_len(a.buf)
        yield a.j < V.buf_len(a.buf)

    def run(self, X, case, a):
        m = int(case["mask"], 16)
        layout = {"f": [m, a.off], "g": [0xFF, 0]}
        data = {"absent-from-layout": 7, "f": a.value}
        old = Snap(a.buf)
        X.call(conv().encode_dict, data, layout, a.buf)
        dec = {}
        X.call(conv().decode_bits, a.buf, {"f": [m, a.off]}, dec)
        return old, Snap(a.buf), dec

    def ensures(self, case, a, out, X):
        if out.kind != "return":
            yield "C10", "returns (raised %s)" % type(out.exc).__name__, False
            return
        m = int(case["mask"], 16)
        nb = nbytes(m)
        old, new, dec = out.value
        old_field = old.be(a.off, nb)
        enc = spec_encode_bytes(a.value, m)
        # frame + effect with a skolem index j: new[j] == old[j] ^ (enc[j-off] if off <= j < off+nb else 0)
        new_j = new.at(a.j)
        old_j = old.at(a.j)
        delta = 0
        for k in range(nb - 1, -1, -1):
            delta = V.ite(a.j == a.off + k, enc[k], delta)
        yield "C10", "writes-exactly-the-field-bits (any index j)", new_j == (old_j ^ delta)
        # the xor only touches bits of the mask
        for k in range(nb):
            yield "C10", "only-mask-bits-change:byte%d" % k, (enc[k] & ~((m >> (8 * (nb - 1 - k))) & 0xFF)) == 0
        # decode after encode
        yield "C10", "decode(encode(v))==old^v", dec["f"] == (spec_decode_field(old_field, m) ^ a.value)
        yield "C10", "decode-result-has-only-layout-keys", list(dec.keys()) == ["f"]

    def canaries(self, case, a, out, X):
        if out.kind == "return":
            yield "canary:decode-ignores-old-contents", out.value[2]["f"] == a.value


class Snap:
    """contents of a buffer at one moment, readable at concrete or symbolic indices (z3 arrays are values)"""

    def __init__(self, buf):
        if isinstance(buf, (V.SMBuf, V.SBuf)):
            self.arr = buf.arr
            self.base = buf.off if isinstance(buf, V.SBuf) else 0
            self.raw = None
        else:
            self.raw = list(buf)

    def at(self, i):
        if self.raw is not None:
            return self.raw[i]
        import z3

        return V.SInt(z3.ZeroExt(V.W - 8, z3.Select(self.arr, z3.simplify(V.to_intsort(self.base + i)))), 0, 255)

    def be(self, off, n):
        return V.be_int([self.at(off + k) for k in range(n)])


class DecodeField(Unit):
    """decode_bits with one mask-kind field at an arbitrary offset of an arbitrary (immutable) buffer"""

    name = "converter/decode_bits:field"
    properties = ("C10",)

    def functions(self):
        return [conv().decode_bits, conv().scsi_ba_to_int]

    def cases(self, tier):
        return _mask_cases(tier)

    def inputs(self, case):
        return {"buf": Buf(maxlen=1 << 16), "off": Size(lo=0, hi=1 << 16)}

    def requires(self, case, a):
        yield a.off + nbytes(int(case["mask"], 16)) <= V.buf_len(a.buf)

    def run(self, X, case, a):
        m = int(case["mask"], 16)
        dec = {"pre-existing": 1}
        X.call(conv().decode_bits, a.buf, {"f": [m, a.off]}, dec)
        return dec

    def ensures(self, case, a, out, X):
        if out.kind != "return":
            yield "C10", "returns (raised %s)" % type(out.exc).__name__, False
            return
        m = int(case["mask"], 16)
        nb = nbytes(m)
        sn = Snap(a.buf)
        cells = [sn.at(a.off + k) for k in range(nb)]
        yield "C10", "reads-exactly-the-field-bits", out.value["f"] == spec_decode_field(spec_ba_to_int(cells), m)
        yield "C10", "result-updated-not-replaced", out.value.get("pre-existing") == 1 and set(out.value) == {"pre-existing", "f"}

    def canaries(self, case, a, out, X):
        if out.kind == "return":
            m = int(case["mask"], 16)
            sn = Snap(a.buf)
            yield "canary:field-off-by-one", out.value["f"] == spec_decode_field(spec_ba_to_int([sn.at(a.off + k) for k in range(nbytes(m))]), m) + 1


class DecodeShort(Unit):
    """decode_bits / scsi_ba_to_int on buffers that may end inside the field (slice clamping): the real code
    against the if-then-else-over-length spec used by the modular contracts"""

    name = "converter/decode_bits:short-buffer"
    properties = ("C10",)

    def functions(self):
        return [conv().decode_bits, conv().scsi_ba_to_int]

    def cases(self, tier):
        ms = [m for m in family(tier) if nbytes(m) <= 9]
        if tier == "quick":
            ms = [m for m in ms if m in repo_masks() or tz(m) in (0, 3)]
        return [{"mask": "0x%X" % m, "off": o} for m in ms for o in (0, 2)]

    def inputs(self, case):
        return {"buf": Buf(maxlen=64)}

    def run(self, X, case, a):
        m = int(case["mask"], 16)
        dec = {}
        X.call(conv().decode_bits, a.buf, {"f": [m, case["off"]]}, dec)
        return dec

    def ensures(self, case, a, out, X):
        if out.kind != "return":
            yield "C10", "returns (raised %s)" % type(out.exc).__name__, False
            return
        m = int(case["mask"], 16)
        nb, o = nbytes(m), case["off"]
        if X.symbolic:
            from pyvc.builtins_model import _frame

            sl = _frame(X.I).buf_slice(a.buf, o, o + nb)
            exp = spec_decode_field(sbuf_be_int(sl), m)
        else:
            exp = spec_decode_field(spec_ba_to_int(list(a.buf[o:o + nb])), m)
        self._exp = exp
        yield "C10", "short-buffer-decode==clamped-big-endian-field", out.value["f"] == exp

    def canaries(self, case, a, out, X):
        if out.kind == "return":
            yield "canary:decoded-value-off-by-one", out.value["f"] == self._exp + 1


class Blobs(Unit):
    """byte / word / dword blobs: encode assigns the slice, decode returns the slice"""

    name = "converter/blobs"
    properties = ("C10",)

    def functions(self):
        return [conv().encode_dict, conv().decode_bits]

    def cases(self, tier):
        top = 8 if tier == "quick" else 32
        return [{"kind": k, "length": n, "offset": o} for k in ("b", "w", "dw") for n in range(0, top + 1) for o in (0, 3)]

    def inputs(self, case):
        mult = {"b": 1, "w": 2, "dw": 4}[case["kind"]]
        n = case["length"] * mult
        return {"buf": Bytes(case["offset"] + n + 2), "value": Bytes(n)}

    def run(self, X, case, a):
        lay = {"blob": (case["kind"], case["offset"], case["length"])}
        old = list(a.buf)
        X.call(conv().encode_dict, {"blob": a.value}, lay, a.buf)
        dec = {}
        X.call(conv().decode_bits, a.buf, lay, dec)
        return old, dec

    def ensures(self, case, a, out, X):
        if out.kind != "return":
            yield "C10", "returns (raised %s)" % type(out.exc).__name__, False
            return
        old, dec = out.value
        mult = {"b": 1, "w": 2, "dw": 4}[case["kind"]]
        n = case["length"] * mult
        o = case["offset"]
        new = list(a.buf)
        yield "C10", "length-unchanged", len(new) == len(old)
        if len(new) != len(old):
            return
        for i in range(len(new)):
            if o <= i < o + n:
                yield "C10", "blob-byte%d-written" % i, new[i] == a.value[i - o]
            else:
                yield "C10", "outside-byte%d-untouched" % i, new[i] == old[i]
        yield "C10", "decode-returns-the-blob", V.bytes_eq(dec["blob"], a.value)


class MixedBlobs(Unit):
    """one layout with byte, word and dword blobs and a bit field, in every order of the fields: each blob is its own
    slice of the buffer whatever was processed before it in the same call (field order, C10)"""

    name = "converter/blobs:mixed-kinds"
    properties = ("C10",)
    LAYOUT = {"sn": ("b", 2, 3), "fw": ("w", 6, 2), "sectors": ("dw", 12, 1), "flag": [0x80, 0], "tail": ("b", 17, 2)}
    SIZES = {"sn": 3, "fw": 4, "sectors": 4, "tail": 2}

    def functions(self):
        return [conv().encode_dict, conv().decode_bits]

    def cases(self, tier):
        names = list(self.LAYOUT)
        orders = [names, names[::-1], ["fw", "sn", "flag", "sectors", "tail"], ["sectors", "tail", "fw", "flag", "sn"], ["fw", "flag", "tail", "sectors", "sn"]]
        if tier != "quick":
            orders = [list(p) for p in itertools.permutations(names)]
        return [{"order": o} for o in orders]

    def case_id(self, case):
        return "order=" + "+".join(case["order"])

    def inputs(self, case):
        d = {"buf": Bytes(20), "flag": U(1)}
        d.update({k: Bytes(n) for k, n in self.SIZES.items()})
        return d

    def run(self, X, case, a):
        lay = {k: self.LAYOUT[k] for k in case["order"]}
        old = list(a.buf)
        # (the bit field is XORed into the buffer: it is encoded into a cleared bit, as the library's callers do)
        a.buf[0] = a.buf[0] & 0x7F
        self.old = [old[0] & 0x7F] + old[1:]
        vals = {k: (a[k] if k != "flag" else a.flag) for k in case["order"]}
        X.call(conv().encode_dict, vals, lay, a.buf)
        dec = {}
        X.call(conv().decode_bits, a.buf, lay, dec)
        return dec

    def ensures(self, case, a, out, X):
        if out.kind != "return":
            yield "C10", "returns (raised %s)" % type(out.exc).__name__, False
            return
        dec = out.value
        new, old = list(a.buf), self.old
        yield "C10", "length-unchanged", len(new) == 20
        if len(new) != 20:
            return
        exp = list(old)
        for k, n in self.SIZES.items():
            o = self.LAYOUT[k][1]
            for i in range(n):
                exp[o + i] = a[k][i]
        exp[0] = exp[0] | (a.flag * 0x80)
        for i in range(20):
            yield "C10", "byte%d" % i, new[i] == exp[i]
        for k, n in self.SIZES.items():
            got = dec.get(k)
            ok = V.is_buffer(got) or isinstance(got, (bytes, bytearray, V.SBytes))
            yield "C10", "decode-%s-is-its-own-slice" % k, ok and len(got) == n and V.bytes_eq(got, a[k])
        yield "C10", "decode-flag", dec.get("flag") == a.flag
        yield "C10", "decoded-in-the-order-of-the-layout", list(dec) == list(case["order"])


class LayoutOrder(Unit):
    """for every layout table of the repository: the encoded bytes do not depend on the order in which the
    fields are supplied, unknown keys are ignored, and decoding returns every supplied value (non-overlapping
    layouts)"""

    name = "converter/layout-order"
    properties = ("C10",)

    def functions(self):
        return [conv().encode_dict, conv().decode_bits]

    def cases(self, tier):
        return [{"layout": k} for k in sorted(repo_layouts())]

    def _layout(self, case):
        return repo_layouts()[case["layout"]]

    def _size(self, lay):
        end = 0
        for v in lay.values():
            if len(v) == 2:
                end = max(end, v[1] + nbytes(v[0]))
            else:
                end = max(end, v[1] + v[2] * {"b": 1, "w": 2, "dw": 4}[v[0]])
        return end

    def _mask_fields(self, lay):
        return [k for k, v in lay.items() if len(v) == 2 and isinstance(v[0], int)]

    def inputs(self, case):
        lay = self._layout(case)
        d = {}
        for k in self._mask_fields(lay):
            m = lay[k][0]
            d["f:" + k] = U(lo=0, hi=m >> tz(m))
        for k, v in lay.items():
            if len(v) == 3:
                d["f:" + k] = Bytes(v[2] * {"b": 1, "w": 2, "dw": 4}[v[0]])
        return d

    def run(self, X, case, a):
        lay = self._layout(case)
        keys = list(lay.keys())
        data = {k: a["f:" + k] for k in keys if "f:" + k in a}
        n = self._size(lay)
        outs = []
        orders = [keys, keys[::-1], keys[1:] + keys[:1]]
        for order in orders:
            buf = V.SBytes([0] * n) if X.symbolic else bytearray(n)
            d = {k: data[k] for k in order if k in data}
            d["not-in-layout"] = 1
            X.call(conv().encode_dict, d, lay, buf)
            outs.append(buf)
        dec = {}
        X.call(conv().decode_bits, outs[0], lay, dec)
        return outs, dec, data

    def ensures(self, case, a, out, X):
        if out.kind != "return":
            yield "C10", "returns (raised %s)" % type(out.exc).__name__, False
            return
        outs, dec, data = out.value
        lay = self._layout(case)
        # the property speaks about layouts of non-overlapping fields; overlapping mask fields still commute
        # (xor), overlapping blobs do not (slice assignment) and are outside the precondition
        if _disjoint(lay) or all(len(v) == 2 for v in lay.values()):
            yield "C10", "order-independent:reversed", V.bytes_eq(outs[0], outs[1])
            yield "C10", "order-independent:rotated", V.bytes_eq(outs[0], outs[2])
        else:
            yield "C10", "overlapping-blob-layout-outside-precondition", True
        if _disjoint(lay):
            for k in data:
                if V.is_buffer(data[k]):
                    yield "C10", "decode(encode)==value:%s" % k, V.bytes_eq(dec[k], data[k])
                else:
                    yield "C10", "decode(encode)==value:%s" % k, dec[k] == data[k]


def _disjoint(lay):
    seen = set()
    for v in lay.values():
        if len(v) == 2:
            m, off = v
            nb = nbytes(m)
            bits = {(off + (nb - 1 - b // 8), b % 8) for b in range(m.bit_length()) if (m >> b) & 1}
        else:
            n = v[2] * {"b": 1, "w": 2, "dw": 4}[v[0]]
            bits = {(v[1] + i, b) for i in range(n) for b in range(8)}
        if bits & seen:
            return False
        seen |= bits
    return True


class LayoutChanges(Unit):
    """the layout is an ARGUMENT of every call: the same dictionary object used with other contents (edited in place
    between two calls), and a second dictionary with the same field name, are decoded / encoded by what they contain at
    the time of the call -- nothing learnt from an earlier call about 'this' layout may be reused"""

    name = "converter/layout-changes-between-calls"
    properties = ("C10",)
    PAIRS = ((0x01, 0, 0x02, 0), (0xF0, 1, 0x0F, 1), (0xFF, 0, 0xFFFF, 2), (0x3FFC, 1, 0x7F, 3), (0xFFFFFFFF, 0, 0x1F00, 4), (0x80, 5, 0xFFFFFF, 1))

    def functions(self):
        return [conv().decode_bits, conv().encode_dict]

    def cases(self, tier):
        return [{"pair": i, "how": how} for i in range(len(self.PAIRS)) for how in ("edited-in-place", "second-dictionary")]

    def inputs(self, case):
        m1, o1, m2, o2 = self.PAIRS[case["pair"]]
        return {"data": Bytes(10, mutable=False), "v1": U(bin(m1).count("1")), "v2": U(bin(m2).count("1"))}

    def run(self, X, case, a):
        m1, o1, m2, o2 = self.PAIRS[case["pair"]]
        layout = {"f": [m1, o1]}
        d1, d2 = {}, {}
        X.call(conv().decode_bits, a.data, layout, d1)
        e1 = V.SBytes([0] * 10, True) if X.symbolic else bytearray(10)
        X.call(conv().encode_dict, {"f": a.v1}, layout, e1)
        if case["how"] == "edited-in-place":
            layout["f"] = [m2, o2]
        else:
            layout = {"f": [m2, o2]}
        X.call(conv().decode_bits, a.data, layout, d2)
        e2 = V.SBytes([0] * 10, True) if X.symbolic else bytearray(10)
        X.call(conv().encode_dict, {"f": a.v2}, layout, e2)
        return d1, list(e1), d2, list(e2)

    def ensures(self, case, a, out, X):
        if out.kind != "return":
            yield "C10", "returns (raised %s)" % type(out.exc).__name__, False
            return
        m1, o1, m2, o2 = self.PAIRS[case["pair"]]
        d1, e1, d2, e2 = out.value
        data = list(a.data)
        for tag, d, e, m, o, v in (("first", d1, e1, m1, o1, a.v1), ("second", d2, e2, m2, o2, a.v2)):
            nb = nbytes(m)
            yield "C10", "%s-call:decode-follows-the-layout-it-was-given" % tag, d.get("f") == spec_decode_field(spec_ba_to_int(data[o:o + nb]), m)
            exp = [0] * 10
            for k, b in enumerate(spec_encode_bytes(v, m)):
                exp[o + k] = b
            ok = len(e) == 10
            yield "C10", "%s-call:encode-length" % tag, ok
            if ok:
                for i in range(10):
                    yield "C10", "%s-call:encode-follows-the-layout-it-was-given:byte%d" % (tag, i), e[i] == exp[i]

    def canaries(self, case, a, out, X):
        if out.kind == "return":
            m1, o1, m2, o2 = self.PAIRS[case["pair"]]
            yield "canary:second-decode-off-by-one", out.value[2].get("f") == spec_decode_field(spec_ba_to_int(list(a.data)[o2:o2 + nbytes(m2)]), m2) + 1


register(IntToBa())
register(BaToInt())
register(EncodeField())
register(DecodeField())
register(DecodeShort())
register(Blobs())
register(MixedBlobs())
register(LayoutOrder())
register(LayoutChanges())

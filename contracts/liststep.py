# contracts.liststep -- C04 for every descriptor count: the `step` and `extent` obligations of the stride loops.
#
# For a decoder loop  while len(X): ... acc.append(elem) ...; X = X[stride:]  the bounded units of contracts.datain
# prove the whole function for 0..K descriptors.  Here the same statement is proved for ANY number of descriptors:
#   extent : the buffer X0 the real prefix hands to the loop is exactly the standard's extent of the list
#            (header length .. header length + reported length, clamped to the data actually present);
#   step   : from a loop-head state with an ARBITRARY buffer X that holds at least one whole descriptor (as the
#            standard's own length rule measures it), one execution of the real body appends exactly one element,
#            that element equals the spec decoder applied to the first descriptor of X, and X' is X advanced by
#            exactly that descriptor's length;
#   exit   : the loop test is len(X) (schema check), so it stops exactly when the chunks are used up.
# The schema lemma (induction on len(X)) then gives: the result list is the spec decoding of the consecutive
# descriptors of the extent, in order, for every descriptor count.
import ast

from pyvc import values as V
from pyvc.unit import Unit, Buf, register
from spec import data_formats as D
from . import common as C
from .datain import cls_of
from .termination import fn_node


class View:
    """read access to a symbolic-length buffer view for spec code"""

    def __init__(self, buf):
        self.buf = buf

    def at(self, i):
        import z3

        return V.SInt(z3.ZeroExt(V.W - 8, z3.Select(self.buf.arr, z3.simplify(V.to_intsort(self.buf.off + i)))), 0, 255)

    def cells(self, lo, n):
        return [self.at(lo + k) for k in range(n)]

    def sub(self, lo, length):
        return ("view", self.buf.arr, self.buf.off + lo, length)

    def decode(self, fmt, base=0):
        cells = self.cells(base, fmt.size)
        return fmt.decode(cells)


def same_view(got, exp):
    """library value `got` (an SBuf) is the view exp = ('view', arr, off, len)"""
    if not isinstance(got, V.SBuf):
        return False
    _, arr, off, length = exp
    if not got.arr.eq(arr):
        return False
    return V.band(V.compare("==", got.off, off), V.compare("==", V.buf_len(got), length))


def deep_match(got, exp, path=""):
    if isinstance(exp, tuple) and exp and exp[0] == "view":
        yield path, same_view(got, exp)
    elif isinstance(exp, dict):
        if not isinstance(got, dict):
            yield path + "/is-dict", False
            return
        for k, v in exp.items():
            if isinstance(v, Optional):
                # the key is present exactly when the condition holds (on this path `k in got` is a plain boolean)
                yield "%s/%s-present-iff-specified" % (path, k), v.cond if k in got else V.bnot(v.cond)
                if k in got:
                    yield from deep_match(got[k], v.value, "%s/%s" % (path, k))
            elif k not in got:
                yield "%s/%s-present" % (path, k), False
            else:
                yield from deep_match(got[k], v, "%s/%s" % (path, k))
        extra = [k for k in got if k not in exp]
        yield path + "/no-extra-keys%s" % (" (%s)" % extra if extra else ""), not extra
    elif isinstance(exp, list):
        if not isinstance(got, list) or len(got) != len(exp):
            yield path + "/len", False
            return
        for i, (g, e) in enumerate(zip(got, exp)):
            yield from deep_match(g, e, "%s[%d]" % (path, i))
    elif isinstance(exp, _Skip):
        yield path + "/(not compared: %s)" % exp.why, True
    elif isinstance(exp, InnerList):
        ok = isinstance(got, InnerList) and got.name == exp.name
        yield "%s/is-the-list-built-by-the-nested-loop" % path, ok
        if ok:
            yield "%s/nested-loop-runs-over-the-specified-bytes" % path, same_view(got.buf, exp.buf) if isinstance(exp.buf, tuple) else False
            for k, v in exp.params.items():
                yield from deep_match(got.params.get(k), v, "%s/nested-loop-parameter-%s" % (path, k))
    elif isinstance(exp, Call):
        ok = isinstance(got, CallRecord) and got.name == exp.name and len(got.args) == len(exp.args)
        yield "%s/is-the-result-of-%s" % (path, exp.name), ok
        if ok:
            for i, (g, e) in enumerate(zip(got.args, exp.args)):
                yield from deep_match(g, e, "%s/%s-argument%d" % (path, exp.name, i))
    else:
        yield path, V.compare("==", got, exp) if isinstance(got, (int, V.SInt)) else (got == exp)


class _Skip:
    def __init__(self, why):
        self.why = why


class Optional:
    """expected dictionary entry that is present iff cond"""

    def __init__(self, cond, value):
        self.cond, self.value = cond, value


class InnerList:
    """the list a nested loop builds: determined (by that loop's own step obligations and the schema lemma) by the
    buffer it runs over and the values of the variables its body reads"""

    def __init__(self, name, buf, **params):
        self.name, self.buf, self.params = name, buf, params


class Call:
    """expected value: the result of the (separately verified) callee applied to these arguments"""

    def __init__(self, name, *args):
        self.name, self.args = name, args


class CallRecord:
    """what a callee contract returns during a step unit: uninterpreted, remembers the actual arguments"""

    def __init__(self, name, args):
        self.name, self.args = name, args


def _callee_contract(name, is_classmethod):
    def handler(I, *args, **kwargs):
        I.calls.append("contract:%s(uninterpreted)" % name)
        return CallRecord(name, tuple(args[1:] if is_classmethod else args))

    return handler


class StepUnit(Unit):
    """one stride loop; subclasses give decoder, loop ordinal, accumulator name, the spec of one item and the extent"""

    properties = ("C04",)
    witness = False
    decoder = None  # (module, class, function name)
    loop = 0
    acc = None  # name of the accumulator list in the decoder, or (name of a dict, key) when it lives in a dictionary
    kwargs = {}
    callees = ()  # names of class methods replaced by their contract: an uninterpreted result that records the arguments

    def functions(self):
        return [self._fn()[1]]

    def _fn(self):
        cls = cls_of(self.decoder[0], self.decoder[1])
        d = cls.__dict__[self.decoder[2]]
        return cls, (d.__func__ if isinstance(d, (classmethod, staticmethod)) else d), isinstance(d, classmethod)

    header = 8  # bytes of the response header (a well-formed response has at least its header)

    def inputs(self, case):
        return {"data": Buf(maxlen=1 << 24, minlen=self.header)}

    def interp_config(self, case):
        from pyvc import loops
        from .converter import l0_contracts

        cls, fn, _ = self._fn()
        def whole_descriptor(frame, old):
            # the conformance precondition of the step obligations: the loop-head buffer holds a whole descriptor
            exp, stride, need = self.item(View(old), frame.env)
            return [V.compare(">=", V.buf_len(old), need)] + list(self.whole_extra(View(old)))

        contracts = dict(l0_contracts())
        for name in self.callees:
            d = cls.__dict__[name]
            contracts[d.__func__ if isinstance(d, (classmethod, staticmethod)) else d] = _callee_contract(name, isinstance(d, classmethod))
        return {"loop_hook": loops.make_hook(fn, self.loop, capture=True, head_assume=whole_descriptor, inner_contracts=self.inner_contracts()),
                "for_hook": loops.make_for_hook(fn), "contracts": contracts}

    def inner_contracts(self):
        """{ordinal of a loop nested in this one: contract(frame, buffer name)}"""
        return {}

    check_extent = True  # False for a nested loop: what it is handed is the subject of the enclosing loop's step obligation

    expects_whiles = None  # number of `while` loops the decoder must have for this unit to apply (nested-loop units)

    def _loop_node(self):
        cls, fn, _ = self._fn()
        ws = [n for n in ast.walk(fn_node(fn)) if isinstance(n, ast.While)]
        if self.expects_whiles is not None and len(ws) != self.expects_whiles:
            return None  # the decoder was restructured: the enumerated-count contracts still decide it
        return ws[self.loop] if self.loop < len(ws) else None

    def run(self, X, case, a):
        if not X.symbolic:
            return {"reached": False}
        if self._loop_node() is None:
            return {"reached": False, "noloop": True}
        from pyvc.loops import LoopSummarized

        cls, fn, is_cm = self._fn()
        X.ctx.summarise = True  # copies of symbolic-length buffers made on the way to the loop are not looked into
        try:
            if is_cm:
                X.call(fn, cls, a.data, **self.kwargs)
            else:
                X.call(fn, a.data, **self.kwargs)
        except LoopSummarized as s:
            return s.info
        return {"reached": False}

    def whole_extra(self, view):
        """further conformance preconditions on the first descriptor of the loop-head buffer"""
        return []

    def count(self, env):
        """number of elements the standard specifies for this list (from the enclosing descriptor), or None when the
        list simply fills its extent"""
        return None

    bounded_unit = None  # the enumerated-count contract of the same decoder (natively evaluable)

    def replay_redirect(self, case, tier):
        """a failed step / extent obligation speaks about a loop-head state; look for a concrete response on which
        the enumerated-count contract of the same decoder fails (that one is replayed natively)"""
        from pyvc.verify import verify_case
        from pyvc.unit import REGISTRY

        u = REGISTRY.get(self.bounded_unit)
        if u is None:
            return None
        for c in u.cases(tier)[:24]:
            r = verify_case(self.bounded_unit, c, "C04", tier, {"no_witness": True, "explore_budget_s": 60})
            for v in r["violations"]:
                if v.get("inputs") is not None:
                    return self.bounded_unit, c, v["inputs"]
        return None

    # ---- to be provided
    def item(self, view, env):
        """(expected element, stride, minimum length for a whole descriptor) from the first descriptor of the view"""
        raise NotImplementedError

    def extent(self, data_view, n):
        """(first byte, end) of the list inside the input buffer of length n, per the standard"""
        raise NotImplementedError

    def element(self, env):
        if isinstance(self.acc, tuple):
            holder = env.get(self.acc[0])
            return holder.get(self.acc[1]) if isinstance(holder, dict) else None
        acc = env.get(self.acc)
        if acc is None and self.acc_name(env) is not None:
            acc = env.get(self.acc_name(env))
        return acc

    def acc_name(self, env):
        """the accumulator's local name: the one the contract was written against, or -- when the decoder no longer has
        a local of that name (a harmless rename) -- the only list among the loop's locals"""
        if not isinstance(self.acc, str) or self.acc in env:
            return self.acc if isinstance(self.acc, str) else None
        cands = [k for k, v in env.items() if isinstance(v, list)]
        return cands[0] if len(cands) == 1 else None

    def ensures(self, case, a, out, X):
        if out.kind == "return" and out.value.get("noloop"):
            # the decoder was rewritten without a stride `while` loop: the any-count argument of this unit does not
            # apply to it; the enumerated-count contracts of contracts.datain still decide the decoder
            yield "C04", "step-obligations-not-applicable (no stride while-loop in this decoder; enumerated descriptor counts only)", True
            return
        if out.kind == "return" and out.value.get("noschema"):
            yield "C04", "step-obligations-not-applicable (the loop walks an index instead of consuming its buffer; enumerated descriptor counts only)", True
            return
        if out.kind != "return" or not out.value.get("reached"):
            return
        info = out.value
        old, new, env, x0 = info["old"], info["new"], info["env"], info["x0"]
        # ---- extent (the state the real prefix produced, before havoc)
        n = a.data.n
        ok = isinstance(x0, V.SBuf) and x0.arr.eq(a.data.arr)
        if self.check_extent:
            first, end = self.extent(View(a.data), n)
            yield "C04", "extent:list-buffer-is-a-view-of-the-response", ok
        if ok and self.check_extent:
            # clamped to the data present: [min(first, n), min(end, n))
            import z3

            ne, oe, ee = V.to_intsort(n), V.to_intsort(first), V.to_intsort(end)
            start = z3.If(oe <= ne, oe, ne)
            stop = z3.If(ee <= ne, ee, ne)
            stop = z3.If(stop >= start, stop, start)
            yield "C04", "extent:list-length-is-the-reported-length (clamped to the data present)", V.SBool(V.to_intsort(V.buf_len(x0)) == stop - start)
            yield "C04", "extent:list-starts-after-the-header", V.SBool(z3.Or(V.to_intsort(V.buf_len(x0)) == 0, V.to_intsort(x0.off) == start))
        # ---- exit: besides "buffer used up", the only admissible stop condition is an element count, and it must be
        # the count the standard specifies for this list
        limit = info.get("limit")
        spec_count = self.count(env)
        if limit is None:
            yield "C04", "exit:loop-stops-only-when-the-buffer-is-used-up", spec_count is None
        else:
            yield "C04", "exit:loop-test-is-len(buffer)-and-len(list)<count", limit[0] == (self.acc_name(env) if isinstance(self.acc, str) else "?") and limit[1] is not None
            if limit[1] is not None and spec_count is not None:
                yield "C04", "exit:element-count-limit-is-the-specified-count", V.compare("==", limit[1], spec_count)
            elif spec_count is None:
                yield "C04", "exit:no-element-count-is-specified-for-this-list", False
        # ---- step, under the conformance precondition: a whole descriptor is present
        view = View(old)
        exp, stride, need = self.item(view, env)
        whole = V.band(V.compare(">=", V.buf_len(old), need), *self.whole_extra(view))
        acc = self.element(env)
        yield "C04", "step:exactly-one-element-appended", V.bor(V.bnot(whole), isinstance(acc, list) and len(acc) == 1)
        if isinstance(acc, list) and len(acc) == 1:
            for path, cond in deep_match(acc[0], exp):
                yield "C04", "step:element%s" % path, V.bor(V.bnot(whole), cond)
        ok = isinstance(new, V.SBuf) and new.arr.eq(old.arr)
        yield "C04", "step:buffer-advances-within-the-same-data", V.bor(V.bnot(whole), ok)
        if ok:
            yield "C04", "step:buffer-advances-by-exactly-one-descriptor", V.bor(V.bnot(whole), V.band(
                V.compare("==", V.buf_len(new), V.buf_len(old) - stride),
                V.bor(V.compare("==", V.buf_len(new), 0), V.compare("==", new.off, old.off + stride))))

    def finalize(self, case, outs, kinds):
        from pyvc import loops

        node = self._loop_node()
        if node is None or loops.loop_buffer_name(node.test) is None:
            return
        ok, why = loops.schema_check(node)
        yield "C04", "exit:loop-is-in-the-stride-schema (%s)" % why, ok
        reached = sum(1 for o in outs if o.kind == "return" and isinstance(o.value, dict) and o.value.get("reached"))
        yield "C04", "loop-head-reached (vacuity guard, %d paths)" % reached, reached > 0


def be(view, lo, n):
    return V.be_int(view.cells(lo, n))


class GetLbaStatusStep(StepUnit):
    bounded_unit = "decode/GetLBAStatus"
    name = "decode/GetLBAStatus:step"
    decoder = ("scsi_cdb_getlbastatus", "GetLBAStatus", "unmarshall_datain")
    acc = "_lbas"

    def item(self, view, env):
        return view.decode(D.GET_LBA_STATUS_DESCRIPTOR), 16, 16

    def extent(self, dv, n):
        return 8, be(dv, 0, 4) + 4  # PARAMETER DATA LENGTH = n - 3: the data ends at PDL + 4; descriptors start at 8


class PRInReadKeysStep(StepUnit):
    bounded_unit = "decode/PRIn:ReadKeys"
    name = "decode/PRIn:ReadKeys:step"
    decoder = ("scsi_cdb_persistentreservein", "PersistentReserveInReadKeys", "unmarshall_datain")
    acc = "keys"

    def item(self, view, env):
        return be(view, 0, 8), 8, 8

    def extent(self, dv, n):
        return 8, be(dv, 4, 4) + 8


class ReportLunsStep(StepUnit):
    bounded_unit = "decode/ReportLuns"
    name = "decode/ReportLuns:step"
    decoder = ("scsi_cdb_report_luns", "ReportLuns", "unmarshall_datain")
    acc = "_luns"

    def item(self, view, env):
        return _LunEntry(be(view, 0, 8)), 8, 8

    def extent(self, dv, n):
        return 8, be(dv, 0, 4) + 8


class _LunEntry:
    """REPORT LUNS element: a dictionary with one entry whose value is the LUN (the key carries the running index)"""

    def __init__(self, v):
        self.v = v


_orig_deep_match = deep_match


def deep_match(got, exp, path=""):  # noqa: F811  (extends the matcher for the LUN entry)
    if isinstance(exp, _LunEntry):
        ok = isinstance(got, dict) and len(got) == 1
        yield path + "/single-entry", ok
        if ok:
            yield path + "/lun-value", V.compare("==", list(got.values())[0], exp.v)
        return
    yield from _orig_deep_match(got, exp, path)


class ReportPriorityStep(StepUnit):
    bounded_unit = "decode/ReportPriority"
    name = "decode/ReportPriority:step"
    header = 4
    decoder = ("scsi_cdb_report_priority", "ReportPriority", "unmarshall_datain")
    acc = "_descriptors"

    def item(self, view, env):
        head = view.decode(D.REPORT_PRIORITY_DESCRIPTOR_HEAD)
        adlen = head["adlen"]
        exp = dict(head, transport_id=view.sub(8, adlen))
        return exp, 8 + adlen, 8 + adlen

    def extent(self, dv, n):
        return 4, be(dv, 0, 4) + 4


class PRInFullStatusStep(StepUnit):
    """READ FULL STATUS: the TransportID is decoded by unmarshall_transport_id (verified per protocol kind by
    decode/TransportID and decode/PRIn:ReadFullStatus); here it is the callee's result on the bytes that follow the
    24-byte fixed part"""

    bounded_unit = "decode/PRIn:ReadFullStatus"
    name = "decode/PRIn:ReadFullStatus:step"
    decoder = ("scsi_cdb_persistentreservein", "PersistentReserveInReadFullStatus", "unmarshall_datain")
    acc = ("result", "full_status")
    callees = ("unmarshall_transport_id",)

    def item(self, view, env):
        head = view.decode(D.PRIN_FULL_STATUS_DESCRIPTOR_HEAD)
        adl = be(view, 20, 4)
        exp = dict(head, transport_id=Call("unmarshall_transport_id", view.sub(24, V.buf_len(view.buf) - 24)))
        self._adl = adl
        return exp, 24 + adl, 24 + adl

    def whole_extra(self, view):
        # a full status descriptor always carries a TransportID (SPC-4 6.15.5: ADDITIONAL DESCRIPTOR LENGTH >= 24)
        return [V.compare(">", be(view, 20, 4), 0)]

    def extent(self, dv, n):
        return 8, be(dv, 4, 4) + 8


class Vpd83Step(StepUnit):
    """Device Identification VPD page: the designator is decoded by unmarshall_designator (verified per designator
    type and length by decode/VPD83); here it is the callee's result on (DESIGNATOR TYPE, the DESIGNATOR LENGTH bytes
    after the 4-byte header)"""

    bounded_unit = "decode/Inquiry:vpd-83"
    name = "decode/VPD83:step"
    header = 4
    decoder = ("scsi_cdb_inquiry", "Inquiry", "unmarshall_datain")
    kwargs = {"evpd": 1}
    acc = "_d"
    callees = ("unmarshall_designator",)

    def item(self, view, env):
        h = view.decode(D.DESIGNATION_HEADER)
        n = h["designator_length"]
        valid = V.band(h["piv"] == 1, V.bor(h["association"] == 1, h["association"] == 2))
        exp = dict(h)
        exp["protocol_identifier"] = Optional(valid, h["protocol_identifier"])
        exp["designator"] = Call("unmarshall_designator", h["designator_type"], view.sub(4, n))
        return exp, 4 + n, 4 + n

    def extent(self, dv, n):
        return 4, be(dv, 2, 2) + 4


class ResDescriptorsStep(StepUnit):
    """inner loop of READ ELEMENT STATUS: the element descriptors of one element status page.  Element type, volume
    tag flags and ELEMENT DESCRIPTOR LENGTH come from the page header the enclosing iteration decoded (arbitrary here)"""

    expects_whiles = 2
    name = "decode/ReadElementStatus:descriptors:step"
    bounded_unit = "decode/ReadElementStatus"
    decoder = ("scsi_cdb_readelementstatus", "ReadElementStatus", "unmarshall_datain")
    loop = 1
    acc = "_ed"
    check_extent = False

    def _page(self, env):
        r = env.get("_r") if isinstance(env.get("_r"), dict) else {}
        return r.get("element_type"), r.get("pvoltag"), r.get("avoltag"), env.get("_edl")

    def item(self, view, env):
        t, pv, av, edl = self._page(env)
        # the descriptor format is selected by the element type (SMC-3 6.12): decided per path
        fmt = None
        for code in (1, 2, 3, 4):
            if t is not None and bool(V.compare("==", t, code)):
                fmt = D.RES_DESCRIPTOR[code]
                break
        self._known_type = fmt is not None
        exp = view.decode(fmt if fmt is not None else D.RES_DESCRIPTOR[1])
        pos = 12
        if pv is not None and bool(V.compare("!=", pv, 0)):
            exp["primary_volume_tag"] = view.sub(pos, 36)
            pos += 36
        if av is not None and bool(V.compare("!=", av, 0)):
            exp["alternate_volume_tag"] = view.sub(pos, 36)
            pos += 36
        self._content = pos
        self._edl = edl
        return exp, edl, edl

    def whole_extra(self, view):
        # conformance: a defined element type, and an ELEMENT DESCRIPTOR LENGTH that covers the descriptor's content
        return [self._known_type, V.compare(">=", self._edl_of(), self._content)]

    def _edl_of(self):
        return self._edl

    def count(self, env):
        return None


class ResPagesStep(StepUnit):
    """outer loop of READ ELEMENT STATUS: the element status pages; the inner loop is replaced by its contract: it
    runs over the BYTE COUNT OF DESCRIPTOR DATA AVAILABLE bytes after the 8-byte page header with this page's element
    type, volume tag flags and ELEMENT DESCRIPTOR LENGTH"""

    expects_whiles = 2
    name = "decode/ReadElementStatus:pages:step"
    bounded_unit = "decode/ReadElementStatus"
    decoder = ("scsi_cdb_readelementstatus", "ReadElementStatus", "unmarshall_datain")
    loop = 0
    acc = "_esd"

    def inner_contracts(self):
        def descriptors(frame, bufname):
            env = frame.env
            r = env.get("_r") if isinstance(env.get("_r"), dict) else {}
            env["_ed"] = InnerList("descriptors", env[bufname], edl=env.get("_edl"), element_type=r.get("element_type"), pvoltag=r.get("pvoltag"), avoltag=r.get("avoltag"))
            env[bufname] = V.SBytes([], True)

        return {1: descriptors}

    def item(self, view, env):
        t = view.at(0) & 0x0F
        pv = (view.at(1) >> 7) & 1
        av = (view.at(1) >> 6) & 1
        edl = be(view, 2, 2)
        bc = be(view, 5, 3)
        exp = {"element_type": t, "pvoltag": pv, "avoltag": av,
               "element_descriptors": InnerList("descriptors", view.sub(8, bc), edl=edl, element_type=t, pvoltag=pv, avoltag=av)}
        return exp, 8 + bc, 8 + bc

    def extent(self, dv, n):
        return 8, be(dv, 5, 3) + 8


class RtpgPortsStep(StepUnit):
    """inner loop of REPORT TARGET PORT GROUPS: the target port descriptors of one group"""

    expects_whiles = 2
    name = "decode/ReportTargetPortGroups:ports:step"
    bounded_unit = "decode/ReportTargetPortGroups"
    header = 4
    decoder = ("scsi_cdb_report_target_port_groups", "ReportTargetPortGroups", "unmarshall_datain")
    loop = 1
    acc = "_tp_descriptors"
    check_extent = False

    def item(self, view, env):
        return {"relative_target_port_id": be(view, 2, 2)}, 4, 4

    def count(self, env):
        # TARGET PORT COUNT of the group descriptor the enclosing iteration decoded (byte 7 of it)
        g = env.get("_tpgd")
        return g.get("target_port_count") if isinstance(g, dict) else None


class RtpgGroupsStep(StepUnit):
    """outer loop of REPORT TARGET PORT GROUPS; the inner loop is replaced by its contract: it runs over the
    TARGET PORT COUNT x 4 bytes that follow the 8-byte group descriptor and leaves the buffer after them"""

    expects_whiles = 2
    name = "decode/ReportTargetPortGroups:groups:step"
    bounded_unit = "decode/ReportTargetPortGroups"
    header = 4
    decoder = ("scsi_cdb_report_target_port_groups", "ReportTargetPortGroups", "unmarshall_datain")
    loop = 0
    acc = "_tpg_descriptors"

    def inner_contracts(self):
        def ports(frame, bufname):
            entry = frame.env[bufname]
            count = frame.env["_tpgd"]["target_port_count"]
            # (whole descriptor present: len(entry) >= 4 * count, assumed at the loop head)
            frame.env["_tp_descriptors"] = InnerList("ports", entry, count=count)
            frame.env[bufname] = frame.buf_slice(entry, V.arith("*", count, 4), None)

        return {1: ports}

    def item(self, view, env):
        g = view.decode(D.RTPG_GROUP_DESCRIPTOR)
        n = g["target_port_count"]
        exp = dict(g, target_ports=InnerList("ports", view.sub(8, V.buf_len(view.buf) - 8), count=n))
        return exp, 8 + 4 * n, 8 + 4 * n

    def extent(self, dv, n):
        # RETURN DATA LENGTH + 4, after the 4-byte length (and, in the extended format, the 4-byte extended header)
        return _RtpgStart(dv), be(dv, 0, 4) + 4


def _RtpgStart(dv):
    # the extended header (FORMAT TYPE 001b in byte 4) is present when the returned data has room for it
    ext = V.band(V.compare(">=", V.buf_len(dv.buf), 8), V.compare(">=", be(dv, 0, 4), 4), ((dv.at(4) >> 4) & 7) == 1)
    return V.ite(ext, 8, 4)


UNITS = [register(u) for u in (ResDescriptorsStep(), ResPagesStep(), RtpgPortsStep(), RtpgGroupsStep(), GetLbaStatusStep(), PRInReadKeysStep(), ReportLunsStep(), ReportPriorityStep(), PRInFullStatusStep(), Vpd83Step())]

# contracts.roundtrip -- C06: parameter data survives a build/parse round trip and read-modify-write.
#
# For every structure the library can both build and parse, with the shapes and symbolic values of the C04 units:
#  (1) unmarshall(marshall(d)) == d          -- both real functions, back to back;
#  (2) marshall(unmarshall(b)) == b          -- b a canonical response built by the spec encoder;
#  (3) mode pages: changing one field of the parsed dictionary and re-marshalling changes exactly that field's bits.
from pyvc import values as V
from pyvc.unit import Unit, U, register
from spec import data_formats as D
from spec.formats import F
from . import datain as DI
from .datain import cls_of


def _m(mod, cls, name="marshall_datain"):
    return lambda: getattr(cls_of(mod, cls), name)


# decode unit name -> marshaller
PAIRS = {
    "decode/Inquiry:standard": _m("scsi_cdb_inquiry", "Inquiry"),
    "decode/Inquiry:vpd-B2": _m("scsi_cdb_inquiry", "Inquiry"),
    "decode/Inquiry:vpd-B3": _m("scsi_cdb_inquiry", "Inquiry"),
    "decode/Inquiry:vpd-86": _m("scsi_cdb_inquiry", "Inquiry"),
    "decode/Inquiry:vpd-80": _m("scsi_cdb_inquiry", "Inquiry"),
    "decode/Inquiry:vpd-83": _m("scsi_cdb_inquiry", "Inquiry"),
    "decode/ModeSense6": _m("scsi_cdb_modesense6", "ModeSense6"),
    "decode/ModeSense10": _m("scsi_cdb_modesense10", "ModeSense10"),
    "decode/ReadCapacity10": _m("scsi_cdb_readcapacity10", "ReadCapacity10"),
    "decode/ReadCapacity16": _m("scsi_cdb_readcapacity16", "ReadCapacity16"),
    "decode/GetLBAStatus": _m("scsi_cdb_getlbastatus", "GetLBAStatus"),
    "decode/ReportLuns": _m("scsi_cdb_report_luns", "ReportLuns"),
    "decode/ReportTargetPortGroups": _m("scsi_cdb_report_target_port_groups", "ReportTargetPortGroups"),
    "decode/ReadElementStatus": _m("scsi_cdb_readelementstatus", "ReadElementStatus"),
}


class RoundTrip(Unit):
    properties = ("C06",)

    def __init__(self, dec):
        self.dec = dec  # the C04 unit: supplies shapes, inputs and the canonical encoding
        self.name = "roundtrip/" + dec.name.split("/", 1)[1]
        self.marshall = PAIRS[dec.name]
        self.level = getattr(dec, "level", "proof")
        self.bound_note = getattr(dec, "bound_note", None)

    def functions(self):
        f, g = self.marshall(), self.dec.parser()
        return [getattr(f, "__func__", f), getattr(g, "__func__", g)]

    def cases(self, tier):
        out = []
        for c in self.dec.cases(tier):
            if c.get("tail", "none") != "none" or "short" in c:
                continue  # canonical responses carry no unused buffer space and are not truncated
            if self.dec.name.startswith("decode/ModeSense") and len(c["pages"]) != 1:
                continue  # zero / several pages: recorded C04 finding of the decoder (MODE DATA LENGTH ignored)
            if self.dec.name.startswith("decode/ModeSense") and c["bdl"]:
                continue  # the library does not model block descriptors (outside its vocabulary)
            if self.dec.name == "decode/ReadElementStatus" and c["pad"] != 4:
                continue  # the element descriptor length is the device's choice and is not part of the parsed value;
                # the canonical form is the one the library's marshaller emits (12 bytes + tags + 4 reserved)
            out.append(c)
        return out

    def case_id(self, case):
        return self.dec.case_id(case)

    def inputs(self, case):
        return self.dec.inputs(case)

    def interp_config(self, case):
        return self.dec.interp_config(case)

    def _canonical(self, case, a):
        if isinstance(self.dec, DI.FixedDecode):
            vals = DI.field_values(self.dec.fmt, a, fixed=self.dec.fixed)
            cells = self.dec.fmt.encode(vals)
            d = {}
            for k, v in vals.items():
                cur = d
                parts = k.split(".")
                for p in parts[:-1]:
                    cur = cur.setdefault(p, {})
                cur[parts[-1]] = v
            return cells, d
        cells, exp = self.dec.build(case, a)
        return cells, exp

    def kwargs(self, case):
        return self.dec.kwargs if isinstance(self.dec, DI.FixedDecode) else self.dec.kwargs(case)

    def requires(self, case, a):
        # a canonical designation descriptor carries a PROTOCOL IDENTIFIER only when PIV = 1 and the association
        # is target port / target device; otherwise the field is reserved (zero) and not part of the value
        if self.dec.name == "decode/Inquiry:vpd-83":
            for i in range(len(case["descs"])):
                valid = V.band(a["d%d.piv" % i] == 1, V.bor(a["d%d.association" % i] == 1, a["d%d.association" % i] == 2))
                yield V.bor(valid, a["d%d.protocol_identifier" % i] == 0)

    def run(self, X, case, a):
        cells, d = self._canonical(case, a)
        if self.dec.name == "decode/Inquiry:vpd-83":
            for e in d["designator_descriptors"]:
                if not e["__protocol_identifier_valid"]:
                    del e["protocol_identifier"]
        d = _strip_private(d)
        self.cells, self.d = cells, d
        kw = self.kwargs(case)
        built = X.call(self.marshall(), _copy(d))
        back = X.call(self.dec.parser(), built, **kw)
        parsed = X.call(self.dec.parser(), DI.mkbuf(X, cells), **kw)
        rebuilt = X.call(self.marshall(), parsed)
        return built, back, rebuilt

    def ensures(self, case, a, out, X):
        if out.kind != "return":
            yield "C06", "round-trip-completes (raised %s: %s)" % (type(out.exc).__name__, str(out.exc)[:60] if not V.contains_sym(list(out.exc.args)) else ""), False
            return
        built, back, rebuilt = out.value
        for path, cond in V.deep_eq(_project(back, self.d), self.d):
            yield "C06", "unmarshall(marshall(d))==d%s" % (path or "/"), cond
        yield "C06", "marshall(unmarshall(b)):length", V.is_buffer(rebuilt) and len(rebuilt) == len(self.cells)
        if V.is_buffer(rebuilt) and len(rebuilt) == len(self.cells):
            got = list(rebuilt)
            for i, e in enumerate(self.cells):
                yield "C06", "marshall(unmarshall(b))==b:byte%d" % i, got[i] == e


def _strip_private(d):
    if isinstance(d, dict):
        return {k: _strip_private(v) for k, v in d.items() if not (isinstance(k, str) and k.startswith("__"))}
    if isinstance(d, list):
        return [_strip_private(v) for v in d]
    return d


def _copy(d):
    if isinstance(d, dict):
        return {k: _copy(v) for k, v in d.items()}
    if isinstance(d, list):
        return [_copy(v) for v in d]
    return d


def _project(got, exp):
    """restrict `got` to the keys of `exp` (the parser may report more than was supplied, e.g. defaulted fields)"""
    if isinstance(got, dict) and isinstance(exp, dict):
        return {k: _project(got[k], exp[k]) if k in got else DI._MISSING for k in exp}
    if isinstance(got, list) and isinstance(exp, list) and len(got) == len(exp):
        return [_project(g, e) for g, e in zip(got, exp)]
    return got


class ReadModifyWrite(Unit):
    """tools/swp.py for every field of every supported mode page: parse a canonical MODE SENSE response, change
    one field, re-marshall: exactly that field's bits change"""

    properties = ("C06",)

    def __init__(self, ten):
        self.ten = ten
        self.name = "roundtrip/read-modify-write:ModeSense%d" % (10 if ten else 6)
        self.dec = DI.ModeSenseDecode(ten)

    def functions(self):
        m = cls_of("scsi_cdb_modesense10", "ModeSense10") if self.ten else cls_of("scsi_cdb_modesense6", "ModeSense6")
        return [m.marshall_datain.__func__, m.unmarshall_datain.__func__]

    def cases(self, tier):
        out = []
        for key, fmt in sorted(D.MODE_PAGES.items(), key=lambda kv: (kv[0][0], kv[0][1] or 0)):
            for f in fmt.fields:
                if f in ("page_code", "spf", "sub_page_code"):
                    continue
                out.append({"pages": [list(key)], "bdl": 0, "tail": "none", "field": f})
        return out

    def case_id(self, case):
        return "page=%02X%s,field=%s" % (case["pages"][0][0], "" if case["pages"][0][1] is None else ".%02X" % case["pages"][0][1], case["field"])

    def interp_config(self, case):
        return self.dec.interp_config(case)

    def inputs(self, case):
        d = self.dec.inputs(case)
        fmt = D.MODE_PAGES[tuple(case["pages"][0])]
        d["new"] = U(fmt.fields[case["field"]].width)
        return d

    def run(self, X, case, a):
        m = cls_of("scsi_cdb_modesense10", "ModeSense10") if self.ten else cls_of("scsi_cdb_modesense6", "ModeSense6")
        cells, exp = self.dec.build(case, a)
        self.cells = cells
        parsed = X.call(m.unmarshall_datain, DI.mkbuf(X, cells))
        X_page = parsed["mode_pages"][0]
        X_page[case["field"]] = a.new
        return X.call(m.marshall_datain, parsed)

    def ensures(self, case, a, out, X):
        if out.kind != "return":
            yield "C06", "read-modify-write-completes (raised %s)" % type(out.exc).__name__, False
            return
        new = out.value
        fmt = D.MODE_PAGES[tuple(case["pages"][0])]
        f = fmt.fields[case["field"]]
        base = 8 if self.ten else 4
        yield "C06", "rewritten-list-has-the-same-length", V.is_buffer(new) and len(new) == len(self.cells)
        if not (V.is_buffer(new) and len(new) == len(self.cells)):
            return
        got = list(new)
        # expected: the canonical response with only this field replaced
        exp = list(self.cells)
        page = exp[base:]
        for i in range(f.nbytes):
            keep = 0xFF
            for (byte, bit) in f.positions():
                if byte == f.first + i:
                    keep &= ~(1 << bit)
            page[f.first + i] = page[f.first + i] & (keep & 0xFF)
        f.encode(page, a.new)
        exp[base:] = page
        for i in range(len(exp)):
            yield "C06", "only-the-field's-bits-change:byte%d" % i, got[i] == exp[i]



def build_units():
    from pyvc.unit import REGISTRY

    us = []
    for name in PAIRS:
        us.append(RoundTrip(REGISTRY[name]))
    us.append(ReadModifyWrite(False))
    us.append(ReadModifyWrite(True))
    return us


UNITS = [register(u) for u in build_units()]

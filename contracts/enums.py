# contracts.enums -- C18: enumerations map names to values and back consistently under add/remove.
#
# (a) proof: the filter predicate of Enum.keys, extracted from the real AST, includes every user entry and excludes
#     every name that class creation adds -- for any number of entries;
# (b) per-operation contracts against an ordered-dictionary model, run on real Enum objects whose values are
#     symbolic integers (possibly equal to one another): every operation sequence up to length L over a small
#     name pool, initial mappings of size 0..3, dict and keyword construction, a second enumeration alive at the
#     same time (frame).  Bounded in the size of the enumeration and the length of the history;
# (c) the same contracts natively on representative values of the other kinds (str, dict, nested dict, OpCode,
#     None, equal values under different names).
# Stated precondition: names are identifiers that do not start with "__" and do not shadow the Enum / type API
# (keys, add, remove, mro); values are not callables.
import ast
import importlib
import inspect
import itertools
import textwrap

from pyvc import values as V
from pyvc.unit import Unit, U, register, Undecided


def enummod():
    return importlib.import_module("pyscsi.utils.enum")


class KeysPredicate(Unit):
    name = "enum/keys-predicate"
    properties = ("C18",)

    def functions(self):
        return [enummod().Enum.keys.fget]

    def run(self, X, case, a):
        src = textwrap.dedent(inspect.getsource(enummod().Enum.keys.fget))
        fn = ast.parse(src).body[0]
        comps = [n for n in ast.walk(fn) if isinstance(n, ast.ListComp)]
        if len(comps) != 1 or len(comps[0].generators) != 1:
            return None
        g = comps[0].generators[0]
        if not (isinstance(g.iter, ast.Call) and ast.unparse(g.iter) == "vars(cls).items()"):
            return None
        if not (isinstance(comps[0].elt, ast.Name) and isinstance(g.target, ast.Tuple) and comps[0].elt.id == g.target.elts[0].id):
            return None
        return g.ifs, g.target.elts[0].id, g.target.elts[1].id

    def ensures(self, case, a, out, X):
        if out.kind != "return":
            yield "C18", "keys-is-a-filter-over-vars(cls).items()", Undecided("the source of Enum.keys could not be read; the bounded units still apply")
            return
        if out.value is None:
            # not a single list comprehension over vars(cls).items() any more (a loop, a helper, a generator ...): the
            # filter's truth table over the abstraction classes is taken from the real code
            yield from self._truth_table("Enum.keys is not a single list comprehension")
            return
        if not X.symbolic:
            yield "C18", "predicate-evaluated-symbolically-only", True
            return
        import z3

        ifs, kname, vname = out.value
        c, d, m = z3.Bool("callable(val)"), z3.Bool("key.startswith('__')"), z3.Bool("type(val).__name__=='method'")

        def tr(e):
            if isinstance(e, ast.BoolOp):
                xs = [tr(v) for v in e.values]
                return z3.And(*xs) if isinstance(e.op, ast.And) else z3.Or(*xs)
            if isinstance(e, ast.UnaryOp) and isinstance(e.op, ast.Not):
                return z3.Not(tr(e.operand))
            s = ast.unparse(e)
            if s == "callable(%s)" % vname:
                return c
            if s in ("%s.startswith('__')" % kname, '%s.startswith("__")' % kname):
                return d
            if s == "type(%s).__name__ != 'method'" % vname:
                return z3.Not(m)
            if s == "type(%s).__name__ == 'method'" % vname:
                return m
            raise ValueError("unknown atom in the keys filter: %s" % s)

        try:
            P = z3.And(*[tr(e) for e in ifs]) if ifs else z3.BoolVal(True)
        except ValueError as ex:
            # the filter is written in a form this translation does not know (e.g. it calls a helper): its truth table
            # over the eight abstraction classes (callable? / dunder name? / bound method?) is taken from the real code
            yield from self._truth_table(str(ex))
            return
        self._P = P
        probe = enummod().Enum({"_single": 6, "plain": 5})
        yield "C18", "names-with-one-leading-underscore-are-user-entries", list(probe.keys) == ["_single", "plain"] and probe[6] == "_single"
        yield "C18", "every-user-entry-is-listed (name without leading __, value neither callable nor bound method)", V.SBool(z3.Implies(z3.And(z3.Not(c), z3.Not(d), z3.Not(m)), P))
        yield "C18", "names-added-by-class-creation-are-not-listed (__module__, __dict__, __weakref__, __doc__)", V.SBool(z3.Implies(z3.And(d, z3.Not(m), z3.Not(c)), z3.Not(P)))
        yield "C18", "callable-non-method-values-are-not-listed", V.SBool(z3.Implies(z3.And(c, z3.Not(m)), z3.Not(P)))

    def _truth_table(self, why):
        E = enummod().Enum

        class _Obj:
            def meth(self):
                return 1

        bound = _Obj().meth
        samples = {  # (callable, dunder name, bound method) -> (name, value)
            (False, False, False): ("plain", 5), (False, True, False): ("__dunder_plain", 5), "single-underscore": ("_single", 6),
            (True, False, False): ("fn", len), (True, True, False): ("__dunder_fn", len),
            (True, False, True): ("bm", bound), (True, True, True): ("__dunder_bm", bound),
        }
        e = E({name: val for name, val in samples.values()})
        listed = set(e.keys)
        note = " [filter structure not recognised (%s): decided on the truth table of the real filter]" % why[:60]
        yield "C18", "every-user-entry-is-listed (name without leading __, value neither callable nor bound method)" + note, "plain" in listed and "_single" in listed
        yield "C18", "names-added-by-class-creation-are-not-listed (__module__, __dict__, __weakref__, __doc__)" + note, not any(k.startswith("__") and not callable(getattr(e, k, None)) for k in listed) and "__dunder_plain" not in listed
        yield "C18", "callable-non-method-values-are-not-listed" + note, "fn" not in listed and "__dunder_fn" not in listed

    def canaries(self, case, a, out, X):
        if X.symbolic and out.kind == "return" and out.value is not None and getattr(self, "_P", None) is not None:
            yield "canary:every-entry-is-listed", V.SBool(self._P)


NAMES = ("a", "b", "c")


def op_sequences(length):
    ops = []
    for n in NAMES[:2]:
        ops += [("add", n, 0), ("add", n, 1), ("remove", n)]
    ops += [("add", "c", 2), ("lookup", 0), ("lookup", 1), ("lookup", 3)]
    return itertools.product(ops, repeat=length)


class Model:
    """ordinary ordered dictionary with the operations of the property statement"""

    def __init__(self, items):
        self.d = dict(items)

    def add(self, k, v):
        if k in self.d:
            raise KeyError(k)
        self.d[k] = v

    def remove(self, k):
        if k not in self.d:
            raise KeyError(k)
        del self.d[k]

    def lookup(self, v):
        for k, x in self.d.items():
            if x == v:
                return k
        return ""


class Operations(Unit):
    name = "enum/operations"
    properties = ("C18",)
    level = "bounded"
    bound_note = "initial mappings of 0..3 entries, every operation sequence of length <= 3 (quick) / 4 (thorough) over add/remove/lookup on names a, b, c; values are four symbolic integers (any values, possibly equal)"

    def functions(self):
        E = enummod().Enum
        return [E.__getitem__, E.add, E.remove, E.keys.fget, E.__new__, E.__init__]

    def cases(self, tier):
        L = 3 if tier == "quick" else 4
        out = []
        for init in (0, 1, 2, 3):
            for form in ("dict", "kwargs"):
                if init == 0 and form == "kwargs":
                    continue
                for l in range(0, L + 1):
                    if form == "kwargs" and l > 1:
                        continue
                    for i, seq in enumerate(op_sequences(l)):
                        out.append({"init": init, "form": form, "ops": [list(o) for o in seq]})
        return out

    def case_id(self, case):
        return "init=%d,%s,ops=%s" % (case["init"], case["form"], ";".join("%s(%s)" % (o[0], ",".join(map(str, o[1:]))) for o in case["ops"]) or "-")

    def inputs(self, case):
        return {"v0": U(16), "v1": U(16), "v2": U(16), "v3": U(16)}

    def run(self, X, case, a):
        E = enummod().Enum
        vals = [a.v0, a.v1, a.v2, a.v3]
        init = [(NAMES[i], vals[i]) for i in range(case["init"])]
        if case["init"] == 0:
            # an empty mapping given as a dictionary is accepted
            e = E({})
        elif case["form"] == "dict":
            e = E(dict(init))  # class creation: CPython's own semantics (native)
        else:
            e = E(**dict(init))
        other = E({"x": vals[3], "y": 7})
        self.other_empty = E({})  # a second enumeration that was created empty and is never touched
        m = Model(init)
        log = []
        for op in case["ops"]:
            if op[0] == "add":
                r1 = _try(lambda: X.call(e.add, op[1], vals[op[2]]))
                r2 = _try(lambda: m.add(op[1], vals[op[2]]))
            elif op[0] == "remove":
                r1 = _try(lambda: X.call(e.remove, op[1]))
                r2 = _try(lambda: m.remove(op[1]))
            else:
                r1 = _try(lambda: X.call(E.__getitem__, e, vals[op[1]]))
                r2 = _try(lambda: m.lookup(vals[op[1]]))
            keys = list(X.getattr(e, "keys"))
            log.append((op, r1, r2, keys, list(m.d.keys()), [getattr(e, k, None) for k in keys], list(m.d.values())))
        return e, m, other, log, vals

    def ensures(self, case, a, out, X):
        if out.kind != "return":
            yield "C18", "sequence-completes (raised %s)" % type(out.exc).__name__, False
            return
        e, m, other, log, vals = out.value
        for i, (op, r1, r2, keys, mkeys, evals, mvals) in enumerate(log):
            p = "step%d:%s:" % (i, op[0])
            yield "C18", p + "same-outcome-as-the-dictionary", r1[0] == r2[0] and (r1[0] != "raise" or (r1[1] == "KeyError" and r2[1] == "KeyError"))
            if op[0] == "lookup" and r1[0] == "return" and r2[0] == "return":
                yield "C18", p + "reverse-lookup-agrees", r1[1] == r2[1]
            yield "C18", p + "names-agree-in-order", keys == mkeys
            if keys == mkeys:
                for k, x, y in zip(keys, evals, mvals):
                    yield "C18", p + "value-of-%s" % k, x == y
        E = enummod().Enum
        keys = list(E.keys.fget(e))
        yield "C18", "final:names-agree", keys == list(m.d.keys())
        yield "C18", "frame:other-enumeration-untouched", list(E.keys.fget(other)) == ["x", "y"] and other.y == 7 and other.x is vals[3]
        yield "C18", "frame:untouched-empty-enumeration-still-empty", list(E.keys.fget(self.other_empty)) == []
        yield "C18", "frame:an-enumeration-created-empty-afterwards-is-empty", list(E.keys.fget(E({}))) == []
        for n in NAMES:
            yield "C18", "final:attribute-%s-present-iff-in-dictionary" % n, hasattr(e, n) == (n in m.d)


def _try(f):
    try:
        return ("return", f())
    except KeyError:
        return ("raise", "KeyError")
    except V.EngineSignal:
        raise
    except Exception as ex:
        return ("raise", type(ex).__name__)


class ValueKinds(Unit):
    """the same contract natively on representative values of the other kinds"""

    name = "enum/value-kinds"
    properties = ("C18",)
    level = "bounded"
    bound_note = "representative values: str, dict, nested dict, OpCode, None, equal values under two names; reverse lookup of non-member values incl. every attribute value of the enumeration object itself; concrete native runs"

    def run(self, X, case, a):
        E = enummod().Enum
        from pyscsi.pyscsi.scsi_opcode import OpCode

        op = OpCode("X", 1, {"SA": 2})
        nested = {"k": {"n": 1}}
        items = [("s", "text"), ("d", {"p": 1}), ("n", nested), ("o", op), ("none", None), ("dup1", 5), ("dup2", 5), ("_VENDOR_C0", 0xC0), ("x_", 7)]
        e = E(dict(items))
        k = E(**dict(items))
        res = []
        for enum in (e, k):
            m = Model(items)
            res.append(("keys", list(enum.keys), list(m.d.keys())))
            for name, v in items:
                res.append(("attr:" + name, getattr(enum, name) is v or getattr(enum, name) == v, True))
                res.append(("lookup:" + name, enum[v], m.lookup(v)))
            res.append(("lookup:absent", enum["nothing"], ""))
            # a string spelled like a member NAME is looked up as a VALUE like any other (no by-name shortcut)
            for name, _v in items:
                res.append(("lookup-of-the-string-%r" % name, enum[name], m.lookup(name)))
            enum.add("later", 9)
            m.add("later", 9)
            enum.remove("d")
            m.remove("d")
            res.append(("keys-after", list(enum.keys), list(m.d.keys())))
            res.append(("add-existing", _try(lambda: enum.add("s", 1))[1], "KeyError"))
            res.append(("remove-missing", _try(lambda: enum.remove("zzz"))[1], "KeyError"))
            res.append(("keys-after-refusals", list(enum.keys), list(m.d.keys())))
        # values that are no member's value give "", whatever they are -- in particular the values Python itself keeps
        # in a class (the doc string None, the module name, descriptors): an enumeration answers for its members only
        plain_items = [("a", 1), ("b", "two"), ("two", "a")]
        plain = E(dict(plain_items))
        pm = Model(plain_items)
        for stage in ("fresh", "after-add-remove"):
            if stage != "fresh":
                plain.add("c", 3.5)
                pm.add("c", 3.5)
                plain.remove("a")
                pm.remove("a")
            cands = [None, "", 0, False, (), b"", "pyscsi.utils.enum", "Enum", E.__name__, type(plain).__module__, plain, E, object, "a", "b", "c", "two"]
            for n in sorted(set(dir(plain)) | set(vars(plain))):
                try:
                    cands.append(getattr(plain, n))
                except Exception:
                    pass
            wrong = []
            for c in cands:
                try:
                    got, exp = plain[c], pm.lookup(c)
                except Exception as ex:
                    got, exp = "raised %s" % type(ex).__name__, "a name or ''"
                if got != exp:
                    wrong.append("%.40r -> %r, expected %r" % (c, got, exp))
            res.append(("lookup-of-non-member-values:%s%s" % (stage, " (%s)" % "; ".join(wrong[:3]) if wrong else ""), wrong, []))
        bad = []
        for args, kw in (((1, 2, 3), {}), (((1, 2, 3),), {}), ((), {})):
            bad.append(_try(lambda: E(*args, **kw))[1])
        res.append(("constructor-refusals", bad, ["NotSupportedArgumentError"] * 3))
        return res

    def ensures(self, case, a, out, X):
        if out.kind != "return":
            yield "C18", "value-kinds-complete (raised %s)" % type(out.exc).__name__, False
            return
        for name, got, exp in out.value:
            yield "C18", "value-kinds:%s" % name, got == exp


register(KeysPredicate())
register(Operations())
register(ValueKinds())

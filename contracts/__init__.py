# contracts -- sidecar contracts on the real pyscsi functions (the repository is never edited for them)
import importlib

MODULES = ["converter", "cdb_commands", "cdb_codec", "opcodes", "device", "sense", "facade", "attach", "readwrite", "isolation", "termination", "datain", "dataout", "roundtrip", "enums", "bindings", "liststep"]


def load_all():
    for m in MODULES:
        importlib.import_module("contracts." + m)

# contracts.shapes -- structured arguments (caller data, parameter dictionaries) used by the facade and
# data-out contracts: concrete *shapes*; numeric leaves are symbolic where the caller passes `a`.

_SENTINEL_DATA = bytearray(b"\x5a" * 8)


def control_page(values=None):
    """a MODE SELECT parameter dictionary holding one control mode page (page 0Ah, SPF = 0)"""
    v = dict(medium_type=0, device_specific_parameter=0)
    mp = dict(ps=0, spf=0, page_code=0x0A, tst=0, tmf_only=0, dpicz=0, d_sense=0, gltsd=0, rlec=0,
              queue_algorithm_modifier=0, nuar=0, qerr=0, vs=0, rac=0, ua_intlck_ctrl=0, swp=0, ato=0, tas=0,
              atmpe=0, rwwp=0, autoload_mode=0, busy_timeout_period=0, extended_self_test_completion_time=0)
    if values:
        for k, x in values.items():
            if k in v:
                v[k] = x
            else:
                mp[k] = x
    v["mode_pages"] = [mp]
    return v


def facade_args(method, case, a):
    if method in ("write10", "write12", "write16", "writesame10", "writesame16"):
        return {"data": _SENTINEL_DATA}
    if method in ("modeselect6", "modeselect10"):
        return {"data": control_page()}
    return {}


# widths of optional facade / constructor parameters that are not CDB fields (they go into parameter lists)
EXTRA_WIDTHS = {
    "extendedcopy4": dict(list_identifier=8, sequential_striped=1, nrcr=1, priority=3),
    "extendedcopy5": dict(sequential_striped=1, list_id_usage=2, priority=3, g_sense=1, immed=1, list_identifier=32),
}

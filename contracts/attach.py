# contracts.attach -- C16: attaching the facade to a device issues one standard INQUIRY and selects the command
# set of the reported peripheral device type; re-attaching repeats the selection and leaks nothing.
from pyvc import values as V
from pyvc.unit import Unit, Bytes, register
from spec import t10_opcodes as T
from spec.stubs.world import World
from . import common as C
from .facade import RecordingDevice, scsimod


class AnsweringDevice(RecordingDevice):
    """device whose data-in answer is given: execute() copies `response` into cmd.datain in place"""

    __pyvc_trusted__ = True

    def __init__(self, opcodes, world, response):
        RecordingDevice.__init__(self, opcodes, world)
        self.response = response

    def execute(self, cmd, en_raw_sense=False):
        self.world.trace.append(("device.execute", cmd, en_raw_sense, cmd.cdb, cmd.datain, cmd.dataout, self))
        buf = cmd.datain
        resp = list(self.response)
        n = min(len(resp), len(buf)) if not isinstance(buf, V.SZeros) else 0
        if isinstance(buf, V.SBytes):
            buf.cells[:n] = resp[:n]
        elif isinstance(buf, bytearray):
            buf[:n] = bytes(resp[:n])


# the property's table: peripheral device type -> command set
REQUIRED = {0x00: "sbc", 0x04: "sbc", 0x07: "sbc", 0x01: "ssc", 0x05: "mmc", 0x08: "smc"}
PRIMARY = ("INQUIRY", "TEST_UNIT_READY", "REPORT_LUNS")


def selection_clauses(prefix, dev, byte0, before, execs_of_dev):
    ptype = byte0 & 0x1F
    yield "C16", prefix + "exactly-one-command-sent-to-the-device", len(execs_of_dev) == 1
    if len(execs_of_dev) == 1:
        cdb = execs_of_dev[0][3]
        ok = isinstance(cdb, (bytearray, V.SBytes)) and len(cdb) == 6
        yield "C16", prefix + "inquiry-cdb-is-6-bytes", ok
        if ok:
            yield "C16", prefix + "inquiry-opcode-from-the-devices-current-set", cdb[0] == before.INQUIRY.value and cdb[0] == T.OPCODES["INQUIRY"]
            yield "C16", prefix + "standard-inquiry (EVPD=0, page 0)", V.band((cdb[1] & 0x01) == 0, cdb[2] == 0)
            yield "C16", prefix + "inquiry-allocation-covers-byte-0", ((cdb[3] << 8) | cdb[4]) >= 1
    yield "C16", prefix + "devicetype==byte0&0x1F", dev.devicetype == ptype
    sel = dev.opcodes
    for t, setname in REQUIRED.items():
        yield "C16", prefix + "type-%02Xh-selects-%s" % (t, setname), V.bor(ptype != t, sel is C.table(setname))
    # whatever was selected offers the primary commands with their T10 values
    for name in PRIMARY:
        op = C.safe_getattr(sel, name)
        yield "C16", prefix + "selected-set-offers-%s" % name, op is not None and op.value == T.OPCODES[name]
    yield "C16", prefix + "selected-set-is-one-of-the-five", any(sel is C.table(s) for s in C.SETS)


class AttachUnit(Unit):
    name = "facade/attach"
    properties = ("C16",)
    assumptions = ("assumed contract of device.execute as seen from the facade (records the command, writes the given INQUIRY data into cmd.datain)",)

    def functions(self):
        S = scsimod().SCSI
        from pyscsi.pyscsi.scsi_cdb_inquiry import Inquiry

        return [S.__init__, S.__call__, S._SCSI__init_opcode, S.inquiry, Inquiry.unmarshall_datain]

    def cases(self, tier):
        return [{"initial": s, "second_initial": s2} for s in C.SETS for s2 in (("spc", "mmc") if tier == "quick" else C.SETS)]

    def inputs(self, case):
        return {"resp1": Bytes(96, mutable=False), "resp2": Bytes(96, mutable=False)}

    def interp_config(self, case):
        from .converter import l0_contracts

        return {"contracts": l0_contracts()}

    def run(self, X, case, a):
        S = scsimod().SCSI
        w = World()
        self.world = w
        self.tables_before = table_fingerprint()
        d1 = AnsweringDevice(C.table(case["initial"]), w, a.resp1)
        d2 = AnsweringDevice(C.table(case["second_initial"]), w, a.resp2)
        self.d1, self.d2 = d1, d2
        s = X.call(S, d1, 512)
        self.after_first = (d1.opcodes, d1.devicetype, list(w.trace))
        X.call(s.__call__, d2)
        # a fresh facade attached directly to an identical second device: the selection must be the same
        d3 = AnsweringDevice(C.table(case["second_initial"]), w, a.resp2)
        self.d3 = d3
        X.call(S, d3, 512)
        return s

    def ensures(self, case, a, out, X):
        if out.kind != "return":
            yield "C16", "attach-returns (raised %s)" % type(out.exc).__name__, False
            return
        w, d1, d2 = self.world, self.d1, self.d2
        sel1, type1, trace1 = self.after_first
        ex1 = [t for t in trace1 if t[0] == "device.execute" and t[6] is d1]
        # first attach, judged on the state right after it
        snap = _Snap(sel1, type1)
        yield from selection_clauses("attach:", snap, a.resp1[0], C.table(case["initial"]), ex1)
        # re-attach
        ex2 = [t for t in w.trace if t[0] == "device.execute" and t[6] is d2]
        yield from selection_clauses("re-attach:", d2, a.resp2[0], C.table(case["second_initial"]), ex2)
        yield "C16", "re-attach:selection-does-not-depend-on-the-previously-attached-device", d2.opcodes is self.d3.opcodes and V.compare("==", d2.devicetype, self.d3.devicetype) is not False
        yield "C16", "re-attach:facade-now-uses-the-second-device", out.value.device is d2
        yield "C16", "re-attach:first-device-untouched", d1.opcodes is sel1 and len([t for t in w.trace if t[0] == "device.execute" and t[6] is d1]) == 1
        yield "C16", "re-attach:blocksize-kept", out.value.blocksize == 512
        # attaching selects among the command sets, it never edits them (they are shared by every device and facade)
        after = table_fingerprint()
        for sname in C.SETS:
            yield "C16", "attach-leaves-the-command-set-tables-unchanged:%s" % sname, after[sname] == self.tables_before[sname]

    def canaries(self, case, a, out, X):
        if out.kind == "return":
            yield "canary:always-sbc", self.d2.opcodes is C.table("sbc") and (a.resp2[0] & 0x1F) == 5


def table_fingerprint():
    """{set name: [(entry name, opcode value, [(service action name, value)])]} of the five command sets"""
    out = {}
    for sname in C.SETS:
        t = C.table(sname)
        rows = []
        for k in t.keys:
            op = getattr(t, k)
            sa = getattr(op, "serviceaction", None)
            rows.append((k, getattr(op, "value", op), [(n, getattr(sa, n)) for n in sa.keys] if sa is not None else []))
        out[sname] = rows
    return out


class _Snap:
    def __init__(self, opcodes, devicetype):
        self.opcodes = opcodes
        self.devicetype = devicetype


register(AttachUnit())


class DeviceTypeAttribute(Unit):
    """the facade stores the detected type on the device and reads it back to select the command set: on both transport
    classes what is read back is what was stored, for every 5-bit type (00h included), and for opcodes likewise"""

    name = "facade/attach:devicetype-attribute"
    properties = ("C16",)

    def functions(self):
        from .device import devmod, iscsimod

        fs = []
        for K in (devmod().SCSIDevice, iscsimod().ISCSIDevice):
            p = K.__dict__.get("devicetype")
            if isinstance(p, property):
                fs += [f for f in (p.fget, p.fset) if f is not None]
        return fs

    def cases(self, tier):
        return [{"transport": t} for t in ("sgio", "iscsi")]

    def inputs(self, case):
        from pyvc.unit import U

        return {"devicetype": U(5)}

    def run(self, X, case, a):
        from .device import devmod, iscsimod, world_installed, PATH, URL

        w = World()
        w.present[PATH] = True
        w.inode[PATH] = 7
        with world_installed(w):
            dev = X.call(devmod().SCSIDevice, PATH) if case["transport"] == "sgio" else X.call(iscsimod().ISCSIDevice, URL, "iqn.2000-01.test:initiator")
            X.setattr(dev, "devicetype", a.devicetype)
            got = X.getattr(dev, "devicetype")
            # the command set the facade selects is what the device offers afterwards: same names, same codes
            self.tables = []
            for name in ("spc", "sbc", "ssc", "smc", "mmc"):
                table = C.table(name)
                X.setattr(dev, "opcodes", table)
                back = X.getattr(dev, "opcodes")
                want = {k: (getattr(table, k).value, getattr(table, k).serviceaction) for k in table.keys}
                try:
                    have = {k: (getattr(back, k).value, getattr(back, k).serviceaction) for k in back.keys}
                except Exception as ex:
                    have = "unreadable (%s)" % type(ex).__name__
                self.tables.append((name, back is table, have == want, sorted(set(want) - set(have))[:3] if isinstance(have, dict) else have))
            return got

    def ensures(self, case, a, out, X):
        yield "C16", "devicetype-read-back-is-what-the-facade-stored (%s)" % out.describe()[:40], out.kind == "return" and (out.value is a.devicetype or out.value == a.devicetype)
        for name, same_obj, same_map, missing in getattr(self, "tables", []):
            yield "C16", "selected-command-set-%s-is-what-the-device-offers-afterwards%s" % (name, "" if same_map else " (missing %s)" % (missing,)), same_obj or same_map


register(DeviceTypeAttribute())

# contracts.isolation -- C09: command objects are isolated from one another.
#
# (1) write frames: every L1/L2/L4 unit is re-run with the automatic frame clauses of pyvc.verify.frame_clauses
#     (writes only to objects created during the call; net effect on the package state empty);
# (2) a whole-package scan: no function of the package stores into non-local state (ground obligations over the
#     AST of every function, import-time class bodies excepted);
# (3) pairs: constructing / decoding with any second command class in between never changes what the first
#     command's class encodes or decodes (all ordered pairs of classes, all argument values);
# (4) determinism: equal inputs give equal bytes.
# Thread interleavings: (1)+(2) give non-interference for every order and interleaving (meta-theorem, DESIGN.md 6
# C09).  A failed frame obligation becomes a VIOLATION only with a replayed interference: sequential histories
# first, then controlled two-thread schedules at source-line granularity (interleaved / thread_search below).
import ast
import importlib
import inspect
import json
import os
import pkgutil
import sys

from pyvc import values as V
from pyvc.unit import Unit, U, register
from spec import cdb_layouts as L
from . import common as C
from .cdb_commands import sets_offering, STRUCTURED
from .cdb_codec import _ctor_kwargs


# ------------------------------------------------------------------------------------------ (2) package scan


def package_modules():
    import pyscsi

    out = []
    for m in pkgutil.walk_packages(pyscsi.__path__, "pyscsi."):
        try:
            out.append(importlib.import_module(m.name))
        except ImportError:
            pass
    return out


def _module_level_names(tree):
    names = set()
    for node in tree.body:
        if isinstance(node, (ast.ClassDef, ast.FunctionDef)):
            names.add(node.name)
        elif isinstance(node, ast.Assign):
            for t in node.targets:
                for n in ast.walk(t):
                    if isinstance(n, ast.Name):
                        names.add(n.id)
        elif isinstance(node, (ast.Import, ast.ImportFrom)):
            for a in node.names:
                names.add((a.asname or a.name).split(".")[0])
    return names


def scan_function(fn_node, module_names, class_names):
    """list of findings: stores into state that is not local to the call"""
    findings = []
    params = {a.arg for a in fn_node.args.args + fn_node.args.kwonlyargs + fn_node.args.posonlyargs}
    if fn_node.args.vararg:
        params.add(fn_node.args.vararg.arg)
    if fn_node.args.kwarg:
        params.add(fn_node.args.kwarg.arg)
    local = set(params)
    for n in ast.walk(fn_node):
        if isinstance(n, ast.Name) and isinstance(n.ctx, ast.Store):
            local.add(n.id)
        elif isinstance(n, (ast.FunctionDef, ast.Lambda)) and n is not fn_node:
            # parameters of inner functions / lambdas (closures built by a factory): objects handed to THAT function
            ia = n.args
            for x in ia.args + ia.kwonlyargs + ia.posonlyargs + ([ia.vararg] if ia.vararg else []) + ([ia.kwarg] if ia.kwarg else []):
                local.add(x.arg)
    first = fn_node.args.args[0].arg if fn_node.args.args else None
    is_cls_method = any(isinstance(d, ast.Name) and d.id == "classmethod" for d in fn_node.decorator_list)

    def root(e):
        while isinstance(e, (ast.Attribute, ast.Subscript)):
            e = e.value
        return e

    def is_shared_root(e):
        r = root(e)
        if isinstance(r, ast.Name):
            if is_cls_method and r.id == first:
                return "cls"
            if r.id not in local and (r.id in module_names or r.id in class_names):
                return r.id
        return None

    for n in ast.walk(fn_node):
        if isinstance(n, ast.Global):
            findings.append("global " + ",".join(n.names))
        targets = []
        if isinstance(n, ast.Assign):
            targets = n.targets
        elif isinstance(n, (ast.AugAssign, ast.AnnAssign)):
            targets = [n.target]
        elif isinstance(n, ast.Delete):
            targets = n.targets
        for t in targets:
            for tt in (t.elts if isinstance(t, (ast.Tuple, ast.List)) else [t]):
                if isinstance(tt, (ast.Attribute, ast.Subscript)):
                    r = is_shared_root(tt)
                    if r:
                        findings.append("store into %s at line %d" % (ast.unparse(tt), tt.lineno))
        if isinstance(n, ast.Call) and isinstance(n.func, ast.Name) and n.func.id in ("setattr", "delattr") and n.args:
            r = is_shared_root(n.args[0]) if isinstance(n.args[0], (ast.Name, ast.Attribute)) else None
            a0 = n.args[0]
            if r or (isinstance(a0, ast.Name) and a0.id == first and is_cls_method):
                findings.append("%s(%s, ...) at line %d" % (n.func.id, ast.unparse(a0), n.lineno))
            elif isinstance(a0, ast.Name) and a0.id not in local:
                findings.append("%s(%s, ...) at line %d" % (n.func.id, ast.unparse(a0), n.lineno))
        if isinstance(n, ast.Call) and isinstance(n.func, ast.Attribute) and n.func.attr in (
                "update", "append", "extend", "pop", "clear", "insert", "remove", "setdefault", "popitem", "add", "discard", "sort"):
            r = is_shared_root(n.func.value)
            if r:
                findings.append("%s.%s(...) at line %d" % (ast.unparse(n.func.value), n.func.attr, n.lineno))
    # mutable default arguments that the body mutates
    defaults = fn_node.args.defaults + [d for d in fn_node.args.kw_defaults if d is not None]
    pos = fn_node.args.args[len(fn_node.args.args) - len(fn_node.args.defaults):] if fn_node.args.defaults else []
    for arg, d in zip(pos, fn_node.args.defaults):
        if isinstance(d, (ast.List, ast.Dict, ast.Set)) or (isinstance(d, ast.Call) and isinstance(d.func, ast.Name) and d.func.id in ("bytearray", "list", "dict", "set")):
            for n in ast.walk(fn_node):
                if isinstance(n, ast.Call) and isinstance(n.func, ast.Attribute) and isinstance(n.func.value, ast.Name) and n.func.value.id == arg.arg \
                        and n.func.attr in ("append", "extend", "update", "pop", "clear", "insert", "remove", "setdefault"):
                    findings.append("mutable default argument %s mutated at line %d" % (arg.arg, n.lineno))
                if isinstance(n, (ast.Assign, ast.AugAssign)):
                    for t in (n.targets if isinstance(n, ast.Assign) else [n.target]):
                        if isinstance(t, ast.Subscript) and isinstance(t.value, ast.Name) and t.value.id == arg.arg:
                            findings.append("mutable default argument %s mutated at line %d" % (arg.arg, n.lineno))
                if isinstance(n, ast.AugAssign) and isinstance(n.target, ast.Name) and n.target.id == arg.arg:
                    findings.append("mutable default argument %s extended in place at line %d" % (arg.arg, n.lineno))
    return findings


# stores that are part of an object's own API (writing the object that was passed in / self) are not findings;
# the Enum metaclass manipulates the enumeration it is called on (that is C18's subject, not shared command state)
EXEMPT_MODULES = ("pyscsi.utils.enum",)


class PackageScan(Unit):
    native_timeout = 0  # runs long by design (own budgets / child processes): no per-call alarm
    name = "isolation/package-scan"
    properties = ("C09",)
    assumptions = ("C09: import-time initialisation (class bodies doing setattr(SCSICommand, <enum name>, ...)) completes before any command is used",
                   "C09: objects that are not shared between threads are unaffected by other threads (CPython memory model); the non-interference meta-theorem is argued on paper")

    def run(self, X, case, a):
        out = []
        for mod in package_modules():
            try:
                src = inspect.getsource(mod)
            except (OSError, TypeError):
                continue
            tree = ast.parse(src)
            mnames = _module_level_names(tree)
            cnames = {n.name for n in ast.walk(tree) if isinstance(n, ast.ClassDef)}
            for node in ast.walk(tree):
                if isinstance(node, ast.FunctionDef):
                    f = scan_function(node, mnames, cnames) if mod.__name__ not in EXEMPT_MODULES else []
                    out.append(("%s:%s:%d" % (mod.__name__, node.name, node.lineno), f))
        # shared objects whose mere USE changes them: one-shot iterators / generators stored at module or class level
        # (a membership test or a loop over them consumes them for every later command)
        import collections.abc
        import types

        self.iterators = []
        for mod in package_modules():
            try:
                tree = ast.parse(inspect.getsource(mod))
            except (OSError, TypeError):
                continue
            used = set()  # names read inside functions (after import time)
            for fnode in ast.walk(tree):
                if isinstance(fnode, (ast.FunctionDef, ast.Lambda)):
                    for n in ast.walk(fnode):
                        if isinstance(n, ast.Name):
                            used.add(n.id)
                        elif isinstance(n, ast.Attribute):
                            used.add(n.attr)
            holders = [(mod.__name__, mod)] + [("%s.%s" % (mod.__name__, n), c) for n, c in vars(mod).items() if isinstance(c, type) and c.__module__ == mod.__name__]
            for hname, h in holders:
                for k, v in list(vars(h).items()):
                    if isinstance(v, (types.GeneratorType, collections.abc.Iterator)) and not isinstance(v, (type, types.ModuleType)) and k in used:
                        self.iterators.append("%s.%s (%s)" % (hname, k, type(v).__name__))
        return out

    def ensures(self, case, a, out, X):
        if out.kind != "return":
            yield "C09", "package-scan-completes (raised %s)" % type(out.exc).__name__, False
            return
        yield "C09", "package-scan-found-functions", len(out.value) > 100
        for name, findings in out.value:
            yield "C09", "frame:no-store-into-non-local-state:%s%s" % (name, (" (" + "; ".join(findings[:3]) + ")") if findings else ""), not findings
        its = getattr(self, "iterators", [])
        yield "C09", "frame:no-one-shot-iterator-shared-at-module-or-class-level%s" % ((" (" + "; ".join(its[:3]) + ")") if its else ""), not its


class DecodeDeterminism(Unit):
    native_timeout = 0  # runs long by design (own budgets / child processes): no per-call alarm
    """equal inputs give equal results: every command class (constructor CDB, decode, re-encode) and every decoder, called again with the same buffer and arguments after all the
    other decoders have run, returns the same value / raises the same error (native, enumerated buffers)"""

    name = "isolation/determinism"
    properties = ("C09",)
    level = "bounded"
    bound_note = "four fixed buffers per decoder and argument tuple, READ CD on every MAIN CHANNEL SELECTION x EXPECTED SECTOR TYPE; each call as the first decoder call of a process, and three passes in one process; concrete native runs"

    def run(self, X, case, a):
        # every call observed as the very first decoder call of a process (a child forked per call from a pristine
        # process), and in one process: forward, reverse, forward again
        isolated = _observe_in_fresh_process("isolated", None)
        runs = [isolated]
        for order in ("forward", "reverse", "forward"):
            o = observe_decoders(order)
            o.update(observe_all(order))  # constructor CDB, decode, re-encode of every simple command class
            runs.append(o)
        return runs

    def ensures(self, case, a, out, X):
        if out.kind != "return":
            yield "C09", "decoders-observable (raised %s: %s)" % (type(out.exc).__name__, str(out.exc)[:80]), False
            return
        runs = out.value
        first = runs[0]
        yield "C09", "decoders-observed", len(first) > 200
        for i, r in enumerate(runs[1:]):
            got = r.get("retained-results")
            yield "C09", "results-decoded-earlier-are-not-changed-by-later-decodes:pass%d%s" % (i, "" if got == ["unchanged"] else " (%s)" % ", ".join((got or ["not observed"])[1:3])), got == ["unchanged"]
        for k in sorted(first):
            yield "C09", "same-result-whatever-was-decoded-before:%s" % k, all(r.get(k) == first[k] for r in runs[1:])
            o = first[k]
            if not k.startswith("decode:") and isinstance(o, list) and len(o) >= 4 and o[0] != "raised":
                yield "C09", "build_cdb-repeated-on-the-same-object-with-equal-inputs-gives-equal-bytes:%s" % k, isinstance(o[3], list) and o[3][0] == o[3][1] == o[3][2] == o[0]
                for r in runs[1:]:
                    fr = r.get(k)
                    if isinstance(fr, list) and len(fr) >= 5 and isinstance(fr[4], list) and fr[4][:1] == ["fresh-datain"]:
                        yield "C09", "a-command-built-after-an-equal-one-was-discarded-has-an-all-zero-data-in-buffer:%s" % k, all(x is True for x in fr[4][1:])
                        break


class Retention(Unit):
    native_timeout = 0  # runs long by design (own budgets / child processes): no per-call alarm
    """a decoded result is the caller's: decoding OTHER data afterwards (same decoder, other values) never changes a
    result handed out earlier.  Every decoder contract of C04 (contracts.datain / contracts.liststep: they build
    well-formed responses from field values) is run natively on three value assignments in a row; the first result
    is compared with a deep copy of itself taken before the later calls."""

    name = "isolation/retention"
    properties = ("C09",)
    level = "bounded"
    witness = False
    bound_note = "every decoder contract and case of C04, three value assignments each (all-zero, small, random with the run's seed); concrete native runs"

    def cases(self, tier):
        from pyvc.unit import REGISTRY

        return [{"unit": n} for n in sorted(REGISTRY) if n.startswith("decode/")]

    def case_id(self, case):
        return case["unit"]

    def run(self, X, case, a):
        import copy
        import random

        from pyvc.unit import REGISTRY, probe_inputs, run_native

        u = REGISTRY[case["unit"]]
        changed, tried = [], 0
        for c in u.cases("quick"):
            try:
                decls = u.inputs(c)
                ins = probe_inputs(decls, random.Random(1), 4)
                first = run_native(u, c, ins[1], frame=False)[0]
            except V.EngineSignal:
                continue
            if first is None or first.kind != "return" or not isinstance(first.value, (dict, list)):
                continue
            keep = first.value
            snap = copy.deepcopy(keep)
            for other in (ins[3], ins[0], ins[2]):
                try:
                    run_native(u, c, other, frame=False)
                except V.EngineSignal:
                    pass
            tried += 1
            if keep != snap:
                changed.append("%s: decoded from %s, after decoding %s" % (u.case_id(c), json.dumps(ins[1])[:120], json.dumps(ins[3])[:80]))
        return tried, changed

    def ensures(self, case, a, out, X):
        if out.kind != "return":
            yield "C09", "retention-observable (raised %s: %s)" % (type(out.exc).__name__, str(out.exc)[:80]), False
            return
        tried, changed = out.value
        yield "C09", "results-decoded-earlier-are-not-changed-by-later-decodes%s" % (" (%s)" % "; ".join(changed[:2]) if changed else ""), not changed


class SharedArguments(Unit):
    """two threads, each building its own command -- from the SAME parameter dictionaries (one request description handed
    to two workers): what either builds is what it builds alone.  Thread A is preempted once, at each line boundary of
    the library in turn, and thread B builds its command to completion there (preemption bound 1)."""

    name = "isolation/shared-argument-objects"
    properties = ("C09",)
    level = "bounded"
    witness = False
    native_timeout = 0
    bound_note = "EXTENDED COPY LID1 and LID4 with one CSCD and one segment descriptor given by name; one preemption of thread A at every line boundary in turn, thread B runs to completion there; concrete native runs"

    def cases(self, tier):
        return [{"cmd": k} for k in sorted(structured_builders())]

    def case_id(self, case):
        return case["cmd"]

    def run(self, X, case, a):
        import contextlib
        import io

        build = structured_builders()[case["cmd"]]
        with contextlib.redirect_stdout(io.StringIO()):
            alone = build()
            _, lines = interleaved(lambda: build(), lambda: None, only_at=-1)
            bad = []
            for k in range(lines):
                shared = build.args()
                box = {}

                def run_b():
                    box["b"] = build(shared)

                got_a, _ = interleaved(lambda: build(shared), run_b, only_at=k)
                if got_a != alone or box.get("b") != alone:
                    bad.append("switch at line boundary %d: A %s, B %s" % (k, "as alone" if got_a == alone else "differs", "as alone" if box.get("b") == alone else "differs"))
        return lines, bad

    def ensures(self, case, a, out, X):
        if out.kind != "return":
            yield "C09", "schedules-run (raised %s: %s)" % (type(out.exc).__name__, str(out.exc)[:80]), False
            return
        lines, bad = out.value
        yield "C09", "schedules-explored", lines > 20
        yield "C09", "both-threads-build-what-they-build-alone-from-shared-parameter-dictionaries%s" % (" (%s)" % "; ".join(bad[:2]) if bad else ""), not bad


# ------------------------------------------------------------------------------------------ (3) pairs


def _simple_classes():
    return [c for c in C.command_classes() if L.layout_key(c) in L.CDB and L.layout_key(c) not in STRUCTURED]


class Pairs(Unit):
    """for every ordered pair (A, B): build a, decode it, build b (any arguments), decode/encode with A again"""

    name = "isolation/pairs"
    properties = ("C09",)
    frame_check = True

    def functions(self):
        from pyscsi.pyscsi.scsi_command import SCSICommand

        return [SCSICommand.__init__, SCSICommand.marshall_cdb, SCSICommand.unmarshall_cdb, SCSICommand.build_cdb]

    def cases(self, tier):
        keys = sorted(L.layout_key(c) for c in _simple_classes())
        if tier == "quick":
            # every class once as A and once as B against a rotating partner, plus the known-dangerous shapes
            out = []
            for i, ka in enumerate(keys):
                for kb in sorted({keys[(i + 1) % len(keys)], keys[(i + 7) % len(keys)], "Write16", "TestUnitReady"}):
                    if ka.startswith("ATA") and kb.startswith("ATA"):
                        continue  # 24 x 24 paths; covered by the thorough tier
                    out.append({"A": ka, "B": kb})
            return out
        return [{"A": ka, "B": kb} for ka in keys for kb in keys]

    def _cls(self, key):
        for c in _simple_classes():
            if L.layout_key(c) == key:
                return c

    def inputs(self, case):
        d = {}
        for side in ("A", "B"):
            for p, f in L.CDB[case[side]].fields.items():
                d["%s.%s" % (side, p)] = U(f.width)
        return d

    def interp_config(self, case):
        from .converter import l0_contracts

        return {"contracts": l0_contracts()}

    def run(self, X, case, a):
        A, B = self._cls(case["A"]), self._cls(case["B"])
        sa, how_a = sets_offering(case["A"])[0]
        sb, how_b = sets_offering(case["B"])[0]
        va = {p: a["A." + p] for p in L.CDB[case["A"]].fields}
        vb = {p: a["B." + p] for p in L.CDB[case["B"]].fields}
        data = bytearray(8)
        cmd_a = X.call(A, C.find_opcode(sa, how_a), **_ctor_kwargs(A, case["A"], va, data))
        cdb_before = list(cmd_a.cdb)
        dec_before = X.call(A.unmarshall_cdb, cmd_a.cdb)
        cmd_b = X.call(B, C.find_opcode(sb, how_b), **_ctor_kwargs(B, case["B"], vb, data))
        X.call(B.unmarshall_cdb, cmd_b.cdb)
        dec_after = X.call(A.unmarshall_cdb, cmd_a.cdb)
        re_after = X.call(A.marshall_cdb, dec_after)
        dec_inst = X.call(cmd_a.unmarshall_cdb, cmd_a.cdb)
        cmd_a2 = X.call(A, C.find_opcode(sa, how_a), **_ctor_kwargs(A, case["A"], va, data))
        return cmd_a, cdb_before, dec_before, dec_after, re_after, dec_inst, cmd_a2

    def ensures(self, case, a, out, X):
        if out.kind != "return":
            yield "C09", "pair-scenario-completes (raised %s)" % type(out.exc).__name__, False
            return
        cmd_a, cdb_before, dec_before, dec_after, re_after, dec_inst, cmd_a2 = out.value
        yield "C09", "cdb-of-A-unchanged-by-building-B", V.bytes_eq(cmd_a.cdb, V.SBytes(cdb_before) if V.contains_sym(cdb_before) else bytearray(cdb_before))
        yield "C09", "decode-with-A-same-keys-after-B", list(dec_after.keys()) == list(dec_before.keys())
        if list(dec_after.keys()) == list(dec_before.keys()):
            for k in dec_before:
                yield "C09", "decode-with-A-unchanged-by-B:%s" % k, dec_after[k] == dec_before[k]
        yield "C09", "encode-with-A-after-B-reproduces-A's-cdb", V.bytes_eq(re_after, cmd_a.cdb)
        yield "C09", "decode-through-the-instance-equals-decode-through-the-class", list(dec_inst.keys()) == list(dec_before.keys()) and all(
            (V.compare("==", dec_inst[k], dec_before[k]) is True) or not isinstance(V.compare("==", dec_inst[k], dec_before[k]), bool) for k in dec_before)
        yield "C09", "determinism:equal-arguments-give-equal-bytes", V.bytes_eq(cmd_a2.cdb, cmd_a.cdb)



register(PackageScan())
register(DecodeDeterminism())
register(Retention())
register(SharedArguments())
register(Pairs())


# ------------------------------------------------------------------------------------------ interference search (replay of failed frame obligations)
#
# A failed frame obligation says that a call wrote state that outlives it.  That alone is not a violation of the
# property (a correct per-class cache would do the same), so before a VIOLATION is reported the write is turned
# into an observable interference: in fresh processes, every command class is observed (constructor CDB for fixed
# arguments, decode, re-encode) in different orders, after the offending call, and after harmless calls on the
# base class; a class whose observation differs between two such histories is the counterexample.  No difference
# found => the frame failure is reported as undecided, not as a violation.


def _pattern(width, name):
    v = 0xA5A5A5A5A5A5A5A5A5A5 & ((1 << width) - 1)
    if name in ("alloclen", "alloc_len", "tl", "nb", "numblks", "num", "elements", "count"):
        v &= 0x1FF if name != "count" else 0xFFFF
    return v


def observe_all(order="forward"):
    import binascii

    classes = sorted(_simple_classes(), key=lambda c: L.layout_key(c))
    if order == "reverse":
        classes = classes[::-1]
    elif order == "subclass-first":
        classes = sorted(classes, key=lambda c: -len(c.__mro__))
    obs = {}
    if order == "isolated":
        import json as _json

        for cls in classes:
            r, w = os.pipe()
            pid = os.fork()
            if pid == 0:
                try:
                    os.close(r)
                    os.write(w, _json.dumps(observe_one(cls)).encode())
                finally:
                    os._exit(0)
            os.close(w)
            data = b""
            while True:
                chunk = os.read(r, 65536)
                if not chunk:
                    break
                data += chunk
            os.close(r)
            os.waitpid(pid, 0)
            if data and _json.loads(data.decode()) is not None:
                obs[L.layout_key(cls)] = _json.loads(data.decode())
        return obs
    for cls in classes:
        o = observe_one(cls)
        if o is not None:
            obs[L.layout_key(cls)] = o
    return obs


def observe_decoders(order="forward"):
    """every data-in / sense decoder on a few fixed buffers (and READ CD on every MAIN CHANNEL SELECTION x EXPECTED SECTOR
    TYPE): the outcome -- value or exception type -- as text"""
    from .termination import decoder_functions, extra_args

    jobs = []
    for name, cls, fn, kind in decoder_functions():
        extras = extra_args(name, fn)
        if name.endswith("ReadCd.unmarshall_datain"):
            extras = [{"lba": 0, "tl": 1, "est": e, "mcsb": m << 3, "c2ei": 0, "scsb": 0} for e in range(0, 6) for m in range(0, 32)]
        for extra in extras:
            for bi, buf in enumerate((bytes(64), bytes([0xFF]) * 64, bytes((7 * i + 3) & 0xFF for i in range(96)), bytes(2400))):
                if name.endswith("ReadCd.unmarshall_datain") and bi != 3:
                    continue
                jobs.append((name, cls, fn, kind, extra, bi, buf))
    if order == "reverse":
        jobs = jobs[::-1]
    obs = {}
    if order == "isolated":
        # every call is the FIRST decoder call of its process: fork a child per call from this (pristine) process
        import json as _json

        for job in jobs:
            r, w = os.pipe()
            pid = os.fork()
            if pid == 0:
                try:
                    os.close(r)
                    one = _run_decoder_job(job)
                    os.write(w, _json.dumps(one).encode())
                finally:
                    os._exit(0)
            os.close(w)
            data = b""
            while True:
                chunk = os.read(r, 65536)
                if not chunk:
                    break
                data += chunk
            os.close(r)
            os.waitpid(pid, 0)
            if data:
                k, v = _json.loads(data.decode())
                obs[k] = v
        return obs
    kept = []
    for job in jobs:
        k, v = _run_decoder_job(job, kept)
        obs[k] = v
    # results handed out earlier are the caller's: a later decode (of other data, with another class) must not change them
    changed = sorted(k for k, obj, text in kept if repr(obj)[:400] != text)
    obs["retained-results"] = ["unchanged"] if not changed else ["changed-by-a-later-decode"] + changed[:6]
    return obs


def _run_decoder_job(job, kept=None):
    name, cls, fn, kind, extra, bi, buf = job
    if True:
        kw = dict(extra)
        args = [bytearray(buf)]
        if "_type" in kw:
            args = [kw.pop("_type")] + args
        if kind == "class":
            args = [cls] + args
        key = "decode:%s%s#%d" % (name, "".join(",%s=%s" % kv for kv in sorted(extra.items())), bi)
        try:
            val = fn(*args, **kw)
            text = repr(val)[:400]
            if kept is not None:
                kept.append((key, val, text))
            return key, ["value", text]
        except Exception as ex:
            return key, ["raised", type(ex).__name__]


def _observe_in_fresh_process(order, prefix):
    import json
    import subprocess

    env = dict(os.environ, PYTHONPATH=os.pathsep.join([VERIF_DIR, os.environ.get("PYSCSI_REPO", "/repo")]), PYTHONDONTWRITEBYTECODE="1")
    p = subprocess.run([sys.executable, "-B", "-c", "import contracts.isolation as m, sys; m._child(sys.argv[1], sys.argv[2])", order, json.dumps(prefix)],
                       capture_output=True, text=True, timeout=300, env=env, cwd=VERIF_DIR)
    for line in p.stdout.splitlines():
        if line.startswith("OBS"):
            return json.loads(line[3:])
    raise RuntimeError("observation process failed: " + (p.stderr or p.stdout)[-400:])


VERIF_DIR = os.path.dirname(os.path.dirname(os.path.abspath(__file__)))


def _child(order, prefix_json):
    import json
    import contextlib
    import io

    from spec import stubs

    stubs.install()
    import contracts

    contracts.load_all()
    prefix = json.loads(prefix_json)
    with contextlib.redirect_stdout(io.StringIO()):
        if prefix and prefix.get("kind") == "offending":
            from pyvc.unit import REGISTRY, run_native

            try:
                run_native(REGISTRY[prefix["unit"]], prefix["case"], prefix["inputs"], frame=False)  # keep what it wrote
            except Exception:
                pass
        elif prefix and prefix.get("kind") == "base-class":
            from pyscsi.pyscsi.scsi_command import SCSICommand

            for f in (lambda: SCSICommand.unmarshall_cdb(bytearray(16)), lambda: SCSICommand.marshall_cdb({"opcode": 0x28})):
                try:
                    f()
                except Exception:
                    pass
        if order == "isolated":
            obs = observe_decoders(order)
            obs.update(observe_all(order))
        else:
            obs = observe_all(order)
            obs.update(observe_decoders("reverse" if order == "reverse" else "forward"))
    print("OBS" + json.dumps(obs))


# ---- thread interleavings (the property's "concurrently in another thread"): a controlled scheduler.  Thread A
# observes one class under sys.settrace; at line boundaries of the library's own source files control is handed
# (threading.Event) to a second, real thread that builds and uses its own command of another class to completion,
# then A resumes.  Two schedules: a switch at EVERY line boundary, and (preemption bound 1) a single switch at each
# line boundary in turn.  A's observation is compared with the one it gives alone.


def observe_one(cls):
    import binascii

    key = L.layout_key(cls)
    lay = L.CDB[key]
    sets = sets_offering(key)
    if not sets:
        return None
    s, how = sets[0]
    vals = {p: _pattern(f.width, p) for p, f in lay.fields.items()}
    try:
        cmd = cls(C.find_opcode(s, how), **_ctor_kwargs(cls, key, vals, bytearray(8)))
        cdb = bytes(cmd.cdb)
        dec = cls.unmarshall_cdb(cmd.cdb)
        re = bytes(cls.marshall_cdb(dec))
        out = [binascii.hexlify(cdb).decode(), {k: (v if isinstance(v, int) else repr(v)) for k, v in dec.items()}, binascii.hexlify(re).decode()]
    except Exception as ex:
        return ["raised", type(ex).__name__, str(ex)[:80]]
    # repeating the marshalling call on the same object with equal inputs: equal bytes, earlier results untouched
    try:
        first = cmd.build_cdb(**dec)
        keep = bytes(first)
        second = cmd.build_cdb(**dec)
        out.append([binascii.hexlify(keep).decode(), binascii.hexlify(bytes(second)).decode(), binascii.hexlify(bytes(first)).decode(), binascii.hexlify(cdb).decode() == out[0]])
    except Exception as ex:
        out.append(["raised", type(ex).__name__])
    # a command built after an equal one was used and discarded starts from the same buffers (all zero): nothing an
    # earlier command's device wrote can reach a later command (large allocation lengths included)
    import gc
    import inspect

    sig = inspect.signature(cls.__init__)
    aname = next((n for n in ("alloclen", "alloc_len") if n in sig.parameters), None)
    if aname is not None:
        fresh = []
        for n in (96, 4096, 16384):
            kw = _ctor_kwargs(cls, key, vals, bytearray(8))
            kw[aname] = n
            try:
                c1 = cls(C.find_opcode(s, how), **kw)
                if isinstance(c1.datain, bytearray):
                    c1.datain[:] = b"\xee" * len(c1.datain)
                del c1
                gc.collect()
                c2 = cls(C.find_opcode(s, how), **kw)
                fresh.append(not any(c2.datain))
            except Exception as ex:
                fresh.append("raised %s" % type(ex).__name__)
        out.append(["fresh-datain"] + fresh)
    return out


def interleaved(run_a, run_b, only_at=None):
    """run_a in thread A; at line boundary number only_at (every boundary when None) of library code executed by A,
    thread B runs run_b once to completion.  Returns (result of A, number of line boundaries seen)."""
    import threading

    go, done, stop = threading.Event(), threading.Event(), threading.Event()
    box = {"lines": 0}

    def thread_b():
        while True:
            go.wait()
            go.clear()
            if stop.is_set():
                return
            try:
                run_b()
            except Exception:
                pass
            done.set()

    def local(frame, event, arg):
        if event == "line":
            i = box["lines"]
            box["lines"] = i + 1
            if only_at is None or only_at == i:
                go.set()
                done.wait()
                done.clear()
        return local

    def tracer(frame, event, arg):
        fn = frame.f_code.co_filename.replace(os.sep, "/")
        return local if "/pyscsi/" in fn and not fn.startswith(VERIF_DIR.replace(os.sep, "/")) else None

    def thread_a():
        sys.settrace(tracer)
        try:
            box["result"] = run_a()
        finally:
            sys.settrace(None)

    tb = threading.Thread(target=thread_b, daemon=True)
    ta = threading.Thread(target=thread_a)
    tb.start()
    ta.start()
    ta.join()
    stop.set()
    go.set()
    tb.join(5)
    return box.get("result"), box["lines"]


def _child_threads(chunk, nchunks):
    import json
    import contextlib
    import io

    from spec import stubs

    stubs.install()
    import contracts

    contracts.load_all()
    classes = sorted(_simple_classes(), key=lambda c: L.layout_key(c))
    by_len = {}
    with contextlib.redirect_stdout(io.StringIO()):
        alone = {L.layout_key(c): observe_one(c) for c in classes}
    for c in classes:
        o = alone[L.layout_key(c)]
        if o and o[0] != "raised":
            by_len.setdefault(len(o[0]) // 2, []).append(c)
    others = [v[0] for k, v in sorted(by_len.items())] + [v[-1] for k, v in sorted(by_len.items()) if len(v) > 1]
    found, runs = [], 0
    with contextlib.redirect_stdout(io.StringIO()):
        for i, a in enumerate(classes):
            if i % nchunks != chunk or alone[L.layout_key(a)] is None:
                continue
            ka = L.layout_key(a)
            for b in others:
                if b is a:
                    continue
                kb = L.layout_key(b)
                got, lines = interleaved(lambda: observe_one(a), lambda: observe_one(b))
                runs += 1
                hit = got != alone[ka]
                if hit:
                    found.append([ka, kb, "a switch at every line boundary", alone[ka], got])
                    continue
                for at in range(lines):
                    got, _ = interleaved(lambda: observe_one(a), lambda: observe_one(b), only_at=at)
                    runs += 1
                    if got != alone[ka]:
                        found.append([ka, kb, "one switch, at line boundary %d of %d" % (at, lines), alone[ka], got])
                        break
            if len(found) >= 6:
                break
    print("THR" + json.dumps({"found": found, "runs": runs}))


def thread_search(nchunks=12):
    import json
    import subprocess
    from concurrent.futures import ThreadPoolExecutor

    env = dict(os.environ, PYTHONPATH=os.pathsep.join([VERIF_DIR, os.environ.get("PYSCSI_REPO", "/repo")]), PYTHONDONTWRITEBYTECODE="1")

    def one(chunk):
        p = subprocess.run([sys.executable, "-B", "-c", "import contracts.isolation as m, sys; m._child_threads(int(sys.argv[1]), int(sys.argv[2]))", str(chunk), str(nchunks)],
                           capture_output=True, text=True, timeout=1200, env=env, cwd=VERIF_DIR)
        for line in p.stdout.splitlines():
            if line.startswith("THR"):
                return json.loads(line[3:])
        raise RuntimeError("thread-schedule process failed: " + (p.stderr or p.stdout)[-400:])

    with ThreadPoolExecutor(max_workers=nchunks) as ex:
        res = list(ex.map(one, range(nchunks)))
    return [f for r in res for f in r["found"]], sum(r["runs"] for r in res)


def structured_builders():
    """{name: callable() -> text}: representative constructions of the commands with structured data-out; EXTENDED COPY with
    its type codes given by name / description (so that the look-ups by name run)"""
    import binascii

    def xcopy(lid4):
        K = importlib.import_module("pyscsi.pyscsi.scsi_cdb_extended_copy_spc5" if lid4 else "pyscsi.pyscsi.scsi_cdb_extended_copy_spc4").ExtendedCopy
        tkey = "cscd_descriptor_parameters" if lid4 else "target_descriptor_parameters"
        src, dst = ("source_cscd_descriptor_id", "destination_cscd_descriptor_id") if lid4 else ("source_target_descriptor_id", "destination_target_descriptor_id")
        tname = "Identification Descriptor CSCD descriptor" if lid4 else "Identification descriptor target descriptor"

        def args():
            t = {"descriptor_type_code": tname, "peripheral_device_type": "Direct access block device (e.g., magnetic disk)",
                 tkey: {"code_set": 1, "association": 0, "designator_type": 3, "designator_length": 16,
                        "designator": {"naa": 6, "ieee_company_id": 0x123456, "vendor_specific_identifier": 0x789ABC, "vendor_specific_identifier_extension": 5}},
                 "device_type_specific_parameters": {"disk_block_length": 512}}
            sg = {"descriptor_type_code": "Copy from block device to block device", "dc": 1, src: 0, dst: 0, "block_device_number_of_blocks": 4,
                  "source_block_device_logical_block_address": 16, "destination_block_device_logical_block_address": 32}
            return t, sg

        def build(shared=None):
            t, sg = shared if shared is not None else args()
            op = C.find_opcode("spc", ("name", "EXTENDED_COPY"))
            cmd = K(op, 0, 0, 0, 0, 0, 0, [t], [sg], bytearray()) if lid4 else K(op, 0, 0, 0, 0, [t], [sg], bytearray())
            return binascii.hexlify(bytes(cmd.cdb)).decode() + "/" + binascii.hexlify(bytes(cmd.dataout)).decode()

        build.args = args
        return build

    out = {"ExtendedCopy4": xcopy(False), "ExtendedCopy5": xcopy(True)}
    return out


def _forked(fn):
    """run fn() in a child forked from this process; returns its JSON-able result (or ['died'])"""
    import json as _json

    r, w = os.pipe()
    pid = os.fork()
    if pid == 0:
        try:
            os.close(r)
            try:
                res = fn()
            except BaseException as ex:
                res = ["raised", type(ex).__name__, str(ex)[:100]]
            os.write(w, _json.dumps(res).encode())
        finally:
            os._exit(0)
    os.close(w)
    data = b""
    while True:
        chunk = os.read(r, 65536)
        if not chunk:
            break
        data += chunk
    os.close(r)
    os.waitpid(pid, 0)
    return _json.loads(data.decode()) if data else ["died"]


def _child_threads_structured():
    """two-thread schedules for the structured commands, EVERY schedule in a process that has not built any command yet
    (lazily initialised shared state is only vulnerable the first time)"""
    import json
    import contextlib
    import io

    from spec import stubs

    stubs.install()
    import contracts

    contracts.load_all()
    builders = structured_builders()
    found, runs = [], 0
    with contextlib.redirect_stdout(io.StringIO()):
        for ka, fa in sorted(builders.items()):
            alone = _forked(fa)
            lines = _forked(lambda: interleaved(fa, lambda: None)[1])
            if not isinstance(lines, int):
                continue
            for kb, fb in sorted(builders.items()):
                alone_b = _forked(fb)

                def both(at):
                    box = {}

                    def run_b():
                        try:
                            box["b"] = fb()
                        except BaseException as ex:
                            box["b"] = ["raised", type(ex).__name__, str(ex)[:100]]

                    try:
                        ra = interleaved(fa, run_b, only_at=at)[0]
                    except BaseException as ex:
                        ra = ["raised", type(ex).__name__, str(ex)[:100]]
                    return [ra, box.get("b")]

                for at in range(lines):
                    got = _forked(lambda: both(at))
                    runs += 1
                    if got[0] != alone:
                        found.append([ka, kb, "one switch, at line boundary %d of %d of thread A, in a process that had not built a command before (thread A's command differs)" % (at, lines), alone, got[0]])
                        break
                    if got[1] is not None and got[1] != alone_b:
                        found.append([kb, ka, "built to completion in thread B while thread A (%s) is paused at line boundary %d of %d, in a process that had not built a command before" % (ka, at, lines), alone_b, got[1]])
                        break
                if len(found) >= 4:
                    break
    print("THR" + json.dumps({"found": found, "runs": runs}))


def thread_search_structured():
    import json
    import subprocess

    env = dict(os.environ, PYTHONPATH=os.pathsep.join([VERIF_DIR, os.environ.get("PYSCSI_REPO", "/repo")]), PYTHONDONTWRITEBYTECODE="1")
    p = subprocess.run([sys.executable, "-B", "-c", "import contracts.isolation as m; m._child_threads_structured()"],
                       capture_output=True, text=True, timeout=1200, env=env, cwd=VERIF_DIR)
    for line in p.stdout.splitlines():
        if line.startswith("THR"):
            r = json.loads(line[3:])
            return r["found"], r["runs"]
    raise RuntimeError("structured thread-schedule process failed: " + (p.stderr or p.stdout)[-400:])


def replay(doc):
    """custom replay (pyvc.replay): 1 = interference reproduced, 0 = none found"""
    offending = {"kind": "offending", "unit": doc["unit"], "case": doc["case"], "inputs": doc["inputs"]}
    histories = [("forward", None), ("reverse", None), ("subclass-first", None), ("forward", offending), ("reverse", offending),
                 ("forward", {"kind": "base-class"}), ("subclass-first", {"kind": "base-class"})]
    base = None
    found = []
    from concurrent.futures import ThreadPoolExecutor

    with ThreadPoolExecutor(max_workers=len(histories)) as ex:
        all_obs = list(ex.map(lambda h: _observe_in_fresh_process(h[0], h[1]), histories))
    for (order, prefix), obs in zip(histories, all_obs):
        label = "%s order%s" % (order, "" if not prefix else ", after %s" % (prefix["kind"] if prefix["kind"] != "offending" else "the offending call of " + doc["unit"]))
        if base is None:
            base, base_label = obs, label
            continue
        for k in sorted(base):
            if k in obs and obs[k] != base[k]:
                found.append((k, base_label, base[k], label, obs[k]))
    print("failed frame obligation:", doc["obligation"])
    if not found:
        tfound, runs = thread_search_structured()
        if not tfound:
            t2, r2 = thread_search()
            tfound, runs = t2, runs + r2
        if tfound:
            for ka, kb, sched, o0, o1 in tfound[:6]:
                print("INTERFERENCE (threads): %s built and used in thread A while thread B builds %s, schedule: %s" % (ka, kb, sched))
                print("              alone      : %s" % str(o0)[:200])
                print("              interleaved: %s" % str(o1)[:200])
            print("REPRODUCED: what a command encodes/decodes depends on a command another thread builds at the same time (%d controlled schedules run)" % runs)
            return 1
        print("NOT REPRODUCED: %d sequential histories (orders, after the offending call, after base-class calls) and %d controlled two-thread schedules (a switch at every line boundary; one switch at each line boundary) give identical observations for all command classes" % (len(histories), runs))
        return 0
    for k, l0, o0, l1, o1 in found[:6]:
        print("INTERFERENCE: %s observed in [%s]: %s" % (k, l0, str(o0)[:200]))
        print("              %s observed in [%s]: %s" % (k, l1, str(o1)[:200]))
    print("REPRODUCED: what %d command class(es) encode/decode depends on other calls made before" % len({f[0] for f in found}))
    return 1

# contracts.sense -- C08: sense data is always decodable and printable, with the key/ASC/ASCQ at SPC's positions
import importlib

from pyvc import values as V
from pyvc.unit import Unit, Bytes, register
from spec import sense_spec as S


def sensemod():
    return importlib.import_module("pyscsi.pyscsi.scsi_sense")


OTHER_FIXED = bytes([0xF0, 0, 0x03, 1, 2, 3, 4, 10, 5, 6, 7, 8, 0x11, 0x00, 9, 0x80, 1, 2])  # MEDIUM ERROR 11h/00h, valid, sksv
OTHER_DESCRIPTOR = bytes([0x72, 0x06, 0x29, 0x00, 0, 0, 0, 0])  # UNIT ATTENTION 29h/00h, no descriptors


class SenseDecode(Unit):
    """SCSICheckCondition(sense), str(), print_data() for every buffer content of a given length"""

    native_timeout = 10  # decoding a sense buffer natively takes microseconds
    explore_budget_s = {"quick": 150, "thorough": 3000}  # (a case takes seconds; a decoder that loops is cut off here)

    name = "sense/SCSICheckCondition"
    properties = ("C08",)

    def functions(self):
        K = sensemod().SCSICheckCondition
        return [K.__init__, K.__str__, K._describe_ascq, K._ascq, K.print_data, K.unmarshall_fixed_format_sense_data,
                K.unmarshall_desc_format_sense_data]

    def cases(self, tier):
        lens = list(range(1, 33)) + [252] if tier == "quick" else list(range(1, 253))
        cs = [{"n": n, "print": p} for n in lens for p in ((False,) if n not in (18, 32) and tier == "quick" else (False, True))]
        # "every sense buffer a target can return" arrives in a process that has seen other sense buffers: another
        # error object (fixed and descriptor format, different key / ASC) is built before this one, or between
        # building this one and converting it to text
        for n in ((1, 3, 8, 18) if tier == "quick" else (1, 2, 3, 4, 8, 13, 14, 18, 32)):
            for other in ("fixed-before", "descriptor-before", "fixed-between", "descriptor-between"):
                cs.append({"n": n, "print": False, "other": other})
        return cs

    def case_id(self, case):
        return "n=%d,print=%s%s" % (case["n"], case["print"], ",other=" + case["other"] if case.get("other") else "")

    def inputs(self, case):
        return {"sense": Bytes(case["n"], mutable=False)}

    def run(self, X, case, a):
        K = sensemod().SCSICheckCondition
        other = case.get("other", "")
        osense = OTHER_FIXED if other.startswith("fixed") else OTHER_DESCRIPTOR
        if other.endswith("before"):
            X.call(X.call(K, osense).__str__)
        exc = X.call(K, a.sense, case["print"]) if case["print"] else X.call(K, a.sense)
        self.exc = exc
        if other.endswith("between"):
            X.call(X.call(K, osense).__str__)
        text = X.call(exc.__str__)
        return exc, text

    def ensures(self, case, a, out, X):
        if out.kind != "return":
            stage = "str()" if getattr(self, "exc", None) is not None else "constructor"
            yield "C08", "constructs-and-prints-without-raising (%s raised %s)" % (stage, type(out.exc).__name__), False
            self.exc = None
            return
        exc, text = out.value
        self.exc = None
        yield "C08", "str-returns-text", isinstance(text, str) or (isinstance(text, V.SOpaque) and text.tag.endswith("text"))
        kaq = S.present_key_asc_ascq(list(a.sense))
        if kaq is not None:
            # every field whose byte the (possibly truncated) buffer contains is reported from its SPC position
            key, asc, ascq = kaq
            if key is not None:
                yield "C08", "sense-key-at-SPC-position", _get(lambda: exc.data["sense_key"]) == key if _has(lambda: exc.data["sense_key"]) else False
            if asc is not None:
                yield "C08", "asc-at-SPC-position", _get(lambda: exc.asc) == asc if _has(lambda: exc.asc) else False
            if ascq is not None:
                yield "C08", "ascq-at-SPC-position", _get(lambda: exc.ascq) == ascq if _has(lambda: exc.ascq) else False



def _has(f):
    try:
        f()
        return True
    except (AttributeError, KeyError):
        return False


def _get(f):
    return f()


class SenseTexts(Unit):
    """assigned codes are described by their T10 text (ground obligations over a reference sample)"""

    name = "sense/texts"
    properties = ("C08",)

    def functions(self):
        K = sensemod().SCSICheckCondition
        return [K.__str__, K._describe_ascq]

    def run(self, X, case, a):
        K = sensemod().SCSICheckCondition
        out = []
        for (asc, ascq), text in sorted(S.ASC_SAMPLE.items()):
            for rc in (0x70, 0x72, 0x71, 0x73):
                for key in (0x5, 0x2, 0x0, 0xB):
                    if rc in (0x70, 0x71):
                        sense = bytes([rc, 0, key, 0, 0, 0, 0, 10, 0, 0, 0, 0, asc, ascq, 0, 0, 0, 0])
                    else:
                        sense = bytes([rc, key, asc, ascq, 0, 0, 0, 0])
                    try:
                        s = str(K(sense))
                    except Exception as ex:  # noqa
                        s = "<raised %s>" % type(ex).__name__
                    out.append((rc, key, asc, ascq, text, s))
        # every (ASC, ASCQ) below 80h/80h: the description is the entry of the library's T10 table for exactly that pair
        # (whose contents the sample above pins), "Unknown ASC/ASCQ" for pairs it does not list -- no pair is described
        # by the entry of another pair or by a generic text
        table = sensemod().sense_ascq_dict
        self.mismatch = []
        for asc in range(0x80):
            for ascq in range(0x80):
                want = table.get((asc << 8) | ascq, "Unknown ASC/ASCQ")
                try:
                    got = K(bytes([0x72, 5, asc, ascq, 0, 0, 0, 0]))._describe_ascq()
                except Exception as ex:  # noqa
                    got = "<raised %s>" % type(ex).__name__
                if got != want:
                    self.mismatch.append("%02X/%02X described as %r, the table says %r" % (asc, ascq, got[:40], want[:40]))
        return out

    def ensures(self, case, a, out, X):
        if out.kind != "return":
            yield "C08", "texts-evaluable", False
            return
        mm = getattr(self, "mismatch", [])
        yield "C08", "every-assigned-pair-is-described-by-its-own-table-entry%s" % (" (%s)" % "; ".join(mm[:3]) if mm else ""), not mm
        for rc, key, asc, ascq, text, s in out.value:
            yield "C08", "T10-text:rc=%02X,key=%X,asc=%02X,ascq=%02X" % (rc, key, asc, ascq), text.lower() in s.lower() and S.SENSE_KEYS[key].lower() in s.lower()


register(SenseDecode())
register(SenseTexts())

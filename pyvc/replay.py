# pyvc.replay -- native replay of a counterexample on the real code (runs under the repository's interpreter,
# no z3 needed).  exit 1: the named obligation is violated by the real code for these inputs (reproduced);
# exit 0: not reproduced; exit 3: harness error.
import json
import os
import sys
import traceback


def main(path):
    verif = os.path.dirname(os.path.dirname(os.path.abspath(__file__)))
    repo = os.environ.get("PYSCSI_REPO", "/repo")
    for p in (repo, verif):
        if p not in sys.path:
            sys.path.insert(0, p)
    doc = json.load(open(path))
    from spec import stubs

    stubs.install()
    import pyscsi

    print("replaying %s on %s (python %s)" % (doc["obligation"], os.path.dirname(pyscsi.__file__), sys.version.split()[0]))
    import contracts

    contracts.load_all()
    from pyvc.unit import REGISTRY, run_native

    if doc.get("custom"):
        mod = __import__(doc["custom"]["module"], fromlist=["replay"])
        return mod.replay(doc)
    unit = REGISTRY[doc["unit"]]
    out, clauses, a = run_native(unit, doc["case"], doc["inputs"])
    if out is None:
        print("inputs do not satisfy the precondition")
        return 0
    print("inputs:", json.dumps(doc["inputs"])[:600])
    print("real code outcome:", out.describe())
    prop = doc["property"]
    want = doc["obligation"].rsplit("]/", 1)[-1]
    failed = [(p, n) for p, n, ok in clauses if not ok and p in (prop, "*")]
    for p, n in failed:
        print("  clause false on the real code: %s/%s" % (p, n))
    if any(n == want for _, n in failed):
        print("REPRODUCED: obligation %s fails natively" % want)
        return 1
    if failed:
        print("REPRODUCED (under a different clause name than the verifier's: %s)" % want)
        return 1
    print("NOT REPRODUCED: every clause of %s holds natively for these inputs" % prop)
    return 0


if __name__ == "__main__":
    try:
        sys.exit(main(sys.argv[1]))
    except SystemExit:
        raise
    except BaseException:
        traceback.print_exc()
        sys.exit(3)

# pyvc.pool -- run jobs in worker processes with a hard wall-clock limit per job (a solver call that ignores its
# own timeout is killed, the job is reported as `timeout`, never as a verdict)
import multiprocessing as mp
import os
import queue
import time
import traceback


def _worker(init, fn, inq, outq):
    try:
        # an allocation the code under test derives from unconstrained inputs (a buffer of 2**40 bytes) fails with
        # MemoryError inside the worker instead of getting the worker killed by the kernel
        import resource

        lim = int(os.environ.get("VERIF_WORKER_MEM_GB", "8")) << 30
        soft, hard = resource.getrlimit(resource.RLIMIT_AS)
        if hard == resource.RLIM_INFINITY or hard > lim:
            resource.setrlimit(resource.RLIMIT_AS, (lim, hard))
    except Exception:
        pass
    try:
        if init is not None:
            init()
    except BaseException as ex:
        outq.put(("init-error", None, "".join(traceback.format_exception(type(ex), ex, ex.__traceback__))))
        return
    while True:
        item = inq.get()
        if item is None:
            return
        idx, job = item
        outq.put(("start", idx, os.getpid()))
        try:
            r = fn(*job)
            outq.put(("done", idx, r))
        except BaseException as ex:
            outq.put(("error", idx, "".join(traceback.format_exception(type(ex), ex, ex.__traceback__))[-4000:]))


def run_jobs(fn, jobs, nproc=None, job_timeout=600, init=None, progress=None):
    """jobs: list of argument tuples.  Returns list of ('done', result) | ('error', text) | ('timeout', None)."""
    nproc = max(1, min(nproc or (os.cpu_count() or 4), len(jobs)))
    ctx = mp.get_context("fork")
    inq = ctx.Queue()
    outq = ctx.Queue()
    results = [None] * len(jobs)
    for i, j in enumerate(jobs):
        inq.put((i, j))
    procs = {}

    def spawn():
        p = ctx.Process(target=_worker, args=(init, fn, inq, outq), daemon=True)
        p.start()
        procs[p.pid] = dict(proc=p, job=None, since=None)

    for _ in range(nproc):
        spawn()
    pending = len(jobs)
    while pending:
        try:
            kind, idx, payload = outq.get(timeout=0.5)
        except queue.Empty:
            kind = None
        if kind == "start":
            if payload in procs:
                procs[payload]["job"] = idx
                procs[payload]["since"] = time.time()
        elif kind in ("done", "error"):
            results[idx] = (kind, payload)
            pending -= 1
            for st in procs.values():
                if st["job"] == idx:
                    st["job"] = None
            if progress:
                progress(idx, kind)
        elif kind == "init-error":
            raise RuntimeError("worker initialisation failed:\n" + payload)
        now = time.time()
        for pid, st in list(procs.items()):
            p = st["proc"]
            if st["job"] is not None and now - st["since"] > job_timeout:
                p.kill()
                p.join()
                if results[st["job"]] is None:
                    results[st["job"]] = ("timeout", None)
                    pending -= 1
                    if progress:
                        progress(st["job"], "timeout")
                del procs[pid]
                spawn()
            elif not p.is_alive():
                if st["job"] is not None and results[st["job"]] is None:
                    results[st["job"]] = ("error", "worker died (exit code %s)" % p.exitcode)
                    pending -= 1
                del procs[pid]
                if pending:
                    spawn()
    for _ in procs:
        inq.put(None)
    for st in procs.values():
        st["proc"].join(timeout=2)
        if st["proc"].is_alive():
            st["proc"].kill()
    return results

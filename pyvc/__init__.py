# pyvc -- verification-condition generator over the real pyscsi source (see DESIGN.md section 3)

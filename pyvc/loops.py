# pyvc.loops -- loop-head verification conditions for the stride loops of the decoders (C11).
#
# For a target `while` loop of a function, the interpreter does not unroll: when execution (of the real function,
# on an arbitrary input buffer) reaches a `while` of that function, the loop is entered ONCE in an
# over-approximated state:
#   * the loop buffer X (the NAME in the test `len(NAME)` / `len(NAME) and ...`) becomes a fresh buffer of
#     symbolic length n >= 1 and arbitrary contents;
#   * names the body assigns: list accumulators become [], everything else must be assigned in the body before
#     it is read (checked; otherwise the unit is undecided);
#   * names the body does not assign keep the symbolic values the real prefix computed (e.g. a stride read from
#     a header: any value the device may send);
#   * the test is evaluated in that state; if it can be false the loop exits (terminates);
#   * the body runs once.  For the target loop the obligation  len(X') < len(X)  is emitted and the path ends
#     (LoopSummarized).  A loop that encloses or precedes the target is left after that one iteration.
# Together with "len is a natural number" this is the textbook variant argument, unbounded in the buffer length.
import ast

from . import values as V
from .values import EngineSignal, Unsupported, SBuf
from .interp import _Break, _Continue

MAXN = 1 << 24


class LoopSummarized(EngineSignal):
    def __init__(self, info):
        self.info = info


def whiles_of(fn_node):
    return [n for n in ast.walk(fn_node) if isinstance(n, ast.While)]


def loop_buffer_name(test):
    """NAME for tests of the form len(NAME) [and ...]; None otherwise"""
    t = test
    if isinstance(t, ast.BoolOp) and isinstance(t.op, ast.And):
        t = t.values[0]

    def is_len(e):
        return isinstance(e, ast.Call) and isinstance(e.func, ast.Name) and e.func.id == "len" and len(e.args) == 1 and isinstance(e.args[0], ast.Name)

    if is_len(t):
        return t.args[0].id
    # len(NAME) > c, len(NAME) >= c, len(NAME) != 0, c < len(NAME), c <= len(NAME)  (c a non-negative constant): the test
    # is false once the buffer is short enough, so a strictly decreasing len(NAME) is still a variant
    if isinstance(t, ast.Compare) and len(t.ops) == 1:
        l, op, r = t.left, t.ops[0], t.comparators[0]
        const = lambda e: isinstance(e, ast.Constant) and isinstance(e.value, int) and e.value >= 0
        if is_len(l) and const(r) and isinstance(op, (ast.Gt, ast.GtE, ast.NotEq)) and (not isinstance(op, ast.NotEq) or r.value == 0):
            return l.args[0].id
        if is_len(r) and const(l) and isinstance(op, (ast.Lt, ast.LtE, ast.NotEq)) and (not isinstance(op, ast.NotEq) or l.value == 0):
            return r.args[0].id
    return None


def loop_comparison(test):
    """(lesser expression, greater expression) for tests of the form  A < B,  A <= B,  B > A,  B >= A  [and ...]: an
    index loop; B - A is the variant.  None otherwise."""
    t = test
    if isinstance(t, ast.BoolOp) and isinstance(t.op, ast.And):
        t = t.values[0]
    if isinstance(t, ast.Compare) and len(t.ops) == 1:
        l, op, r = t.left, t.ops[0], t.comparators[0]
        if isinstance(op, (ast.Lt, ast.LtE)):
            return l, r
        if isinstance(op, (ast.Gt, ast.GtE)):
            return r, l
    return None


def assigned_names(stmts):
    out = set()
    for s in stmts:
        for n in ast.walk(s):
            if isinstance(n, ast.Name) and isinstance(n.ctx, (ast.Store, ast.Del)):
                out.add(n.id)
    return out


def schema_check(node):
    """every assignment to the loop buffer inside the body (nested loops included) is NAME = NAME[expr:]"""
    x = loop_buffer_name(node.test)
    if x is None and loop_comparison(node.test) is not None:
        a, b = loop_comparison(node.test)
        return True, "index loop, variant (%s) - (%s)" % (ast.unparse(b)[:30], ast.unparse(a)[:30])
    if x is None:
        return False, "loop test is neither len(NAME) [>= c] [and ...] nor a comparison A < B"
    for s in node.body:
        for n in ast.walk(s):
            if isinstance(n, (ast.Assign, ast.AugAssign, ast.AnnAssign)):
                targets = n.targets if isinstance(n, ast.Assign) else [n.target]
                for t in targets:
                    for tt in ast.walk(t):
                        if isinstance(tt, ast.Name) and tt.id == x:
                            v = n.value
                            ok = (isinstance(n, ast.Assign) and isinstance(v, ast.Subscript) and isinstance(v.value, ast.Name)
                                  and v.value.id == x and isinstance(v.slice, ast.Slice) and v.slice.upper is None and v.slice.step is None)
                            if not ok:
                                return False, "assignment to %s at line %d is not of the form %s = %s[s:]" % (x, n.lineno, x, x)
    return True, x


def make_hook(target_func, target_ordinal, stats=None, capture=False, head_assume=None, inner_contracts=None):
    """capture=True (step / extent obligations): the LoopSummarized info also carries the buffer the real prefix
    computed before the loop (x0), the havocked buffer (old), the buffer after one iteration (new) and the local
    variables after the iteration (env), so that a contract can relate them to the spec"""
    code = target_func.__code__

    def hook(frame, node):
        from .interp import func_ast

        in_target = frame.f.__code__ is code
        if not in_target and not getattr(frame.f, "__module__", "").startswith("pyscsi"):
            return None
        fn_node, _ = func_ast(frame.f)
        loops = whiles_of(fn_node)
        ordinal = next((i for i, l in enumerate(loops) if l is node), None)
        if ordinal is None:
            return None
        I = frame.I
        ctx = I.ctx
        x = loop_buffer_name(node.test)
        # a loop of another function of the package (a helper the decoder calls) is never the target: it is replaced by
        # its summary, like a loop nested in or preceding the target (it has a variant unit of its own)
        t_ord = target_ordinal if in_target else None
        if x is None and loop_comparison(node.test) is not None:
            return _index_loop(frame, node, ordinal if in_target else -1 - ordinal, t_ord, loops, stats, capture and in_target)
        if x is None:
            raise Unsupported("while loop #%d of %s is not a len(NAME) loop" % (ordinal, frame.f.__qualname__))
        import z3

        body_assigned = assigned_names(node.body)
        target = loops[t_ord] if t_ord is not None else None  # None: every while is summarised
        encloses_target = target is not None and (node is target or any(n is target for n in ast.walk(node)))
        if not encloses_target and in_target and inner_contracts and ordinal in inner_contracts:
            # a loop nested in the target's body that has a functional contract (proved by its own step unit):
            # the contract computes the state after the loop from the state at its head
            inner_contracts[ordinal](frame, x)
            return True
        if not encloses_target:
            # a loop nested in the target's body, or preceding the target: replaced by its summary (it has its own
            # variant unit): terminates; the buffer it consumes does not grow; accumulators are only appended to;
            # everything else it assigns is arbitrary afterwards
            cur = frame.env.get(x)
            name = V.fresh_name("after-loop%d.%s" % (ordinal, x))
            n2 = V.sym_size(name + ".len", 0, MAXN)
            ctx.assume(V.range_constraint(n2))
            if V.is_buffer(cur):
                ctx.assume(V.compare("<=", n2, V.buf_len(cur)))
            frame.env[x] = SBuf(z3.Array(name, z3.IntSort(), z3.BitVecSort(8)), 0, n2)
            for v in body_assigned:
                if v == x:
                    continue
                c = frame.env.get(v, _MISSING)
                if isinstance(c, (list, dict)):
                    continue
                if isinstance(c, (int, V.SInt)) and not isinstance(c, bool):
                    frame.env[v] = V.sym_bv(V.fresh_name("after-loop%d.%s" % (ordinal, v)), 0, 1 << 32)
                    ctx.assume(V.range_constraint(frame.env[v]))
                elif c is not _MISSING:
                    frame.env[v] = _Poison(v)
            return True
        x0 = frame.env.get(x)
        # the state the real prefix produced: the loop is entered only if its test holds there
        if not I.truth(frame.ev(node.test)):
            return True
        # havoc
        name = V.fresh_name("loop%d.%s" % (ordinal, x))
        n = V.sym_size(name + ".len", 1, MAXN)
        ctx.assume(V.range_constraint(n))
        if V.is_buffer(x0):
            # under the stride schema (every assignment to the loop buffer is X = X[k:], an obligation of its own) the
            # buffer at the loop head is never longer than the buffer the loop was entered with
            ctx.assume(V.compare("<=", n, V.buf_len(x0)))
        old = SBuf(z3.Array(name, z3.IntSort(), z3.BitVecSort(8)), 0, n)
        frame.env[x] = old
        for v in body_assigned:
            if v == x:
                continue
            cur = frame.env.get(v, _MISSING)
            if isinstance(cur, list):
                frame.env[v] = []
            elif isinstance(cur, dict):
                frame.env[v] = {}
            elif isinstance(cur, (int, V.SInt)) and not isinstance(cur, bool):
                frame.env[v] = V.sym_bv(V.fresh_name("loop%d.%s" % (ordinal, v)), 0, 1 << 32)  # a counter: any value
                ctx.assume(V.range_constraint(frame.env[v]))
            elif isinstance(cur, (V.SBuf, V.SBytes, bytes, bytearray)):
                nn = V.sym_size(V.fresh_name("loop%d.%s.len" % (ordinal, v)), 0, MAXN)
                ctx.assume(V.range_constraint(nn))
                frame.env[v] = SBuf(z3.Array(V.fresh_name("loop%d.%s" % (ordinal, v)), z3.IntSort(), z3.BitVecSort(8)), 0, nn)
            elif cur is not _MISSING:
                # must be (re)assigned before it is read in the body: a read makes the unit undecided
                frame.env[v] = _Poison(v)
        limit = None
        if capture and ordinal == target_ordinal:
            # a test of the form  len(X) and len(ACC) < E : the loop also stops after E elements; E is evaluated in the
            # loop-head state so that the contract can compare it with the count the standard specifies
            t = node.test
            if isinstance(t, ast.BoolOp) and isinstance(t.op, ast.And) and len(t.values) == 2:
                c = t.values[1]
                if (isinstance(c, ast.Compare) and len(c.ops) == 1 and isinstance(c.ops[0], ast.Lt) and isinstance(c.left, ast.Call)
                        and isinstance(c.left.func, ast.Name) and c.left.func.id == "len" and len(c.left.args) == 1 and isinstance(c.left.args[0], ast.Name)):
                    limit = (c.left.args[0].id, frame.ev(c.comparators[0]))
                else:
                    limit = ("?", None)  # a second conjunct of another shape: not understood
            elif isinstance(t, ast.BoolOp):
                limit = ("?", None)
        if head_assume is not None and ordinal == target_ordinal:
            # precondition of the step obligation on the (fresh) loop-head buffer, known to the body's execution
            for c in head_assume(frame, old):
                if c is False:
                    # this path lies outside the precondition of the step obligation (decided on the way): nothing to prove
                    raise LoopSummarized(dict(reached=False, outside_precondition=True))
                if c is True:
                    continue
                ce = V.bexpr(c) if isinstance(c, (V.SBool, V.SInt)) else c
                if not ctx.feasible(ce):
                    # on this path the precondition cannot hold at all (e.g. the list buffer is shorter than any descriptor)
                    raise LoopSummarized(dict(reached=False, outside_precondition=True))
                ctx.assume(ce)
        tv = frame.ev(node.test)
        if not I.truth(tv):
            return True  # loop exits
        try:
            frame.exec_block(node.body)
        except _Break:
            return True
        except _Continue:
            pass
        if ordinal == target_ordinal:
            new = frame.env.get(x)
            cond = V.compare("<", V.buf_len(new), V.buf_len(old)) if V.is_buffer(new) else False
            if stats is not None:
                stats["reached"] = stats.get("reached", 0) + 1
            info = dict(reached=True, variant=cond, old_len=V.buf_len(old), new_len=V.buf_len(new) if V.is_buffer(new) else None)
            if capture:
                info.update(x0=x0, old=old, new=new, env=dict(frame.env), buffer_name=x, limit=limit)
            raise LoopSummarized(info)
        # a loop enclosing / preceding the target: leave it after this iteration, buffer exhausted
        frame.env[x] = V.SBytes([], True)
        return True

    return hook


def _index_loop(frame, node, ordinal, target_ordinal, loops, stats, capture):
    """`while A < B` (an index walking towards a bound): entered once in an over-approximated state -- every name the
    body assigns is arbitrary (integers fresh, lists emptied, buffers fresh) -- the test is evaluated, the body runs
    once; for the target loop the obligation is  (B - A)' < (B - A)  (the gap is a natural number while the loop
    runs), other loops are left after that one iteration"""
    import z3

    I = frame.I
    ctx = I.ctx
    if capture:
        # step obligations are stated for buffer-consuming loops only
        raise LoopSummarized(dict(reached=False, noschema=True))
    a_expr, b_expr = loop_comparison(node.test)
    for v in assigned_names(node.body):
        cur = frame.env.get(v, _MISSING)
        if isinstance(cur, list):
            frame.env[v] = []
        elif isinstance(cur, dict):
            frame.env[v] = {}
        elif isinstance(cur, (int, V.SInt)) and not isinstance(cur, bool):
            # (an index / offset: integer-sorted, so that the gap is linear integer arithmetic)
            frame.env[v] = V.sym_size(V.fresh_name("loop%d.%s" % (ordinal, v)), 0, 1 << 32)
            ctx.assume(V.range_constraint(frame.env[v]))
        elif isinstance(cur, (V.SBuf, V.SBytes, bytes, bytearray)):
            nn = V.sym_size(V.fresh_name("loop%d.%s.len" % (ordinal, v)), 0, MAXN)
            ctx.assume(V.range_constraint(nn))
            frame.env[v] = SBuf(z3.Array(V.fresh_name("loop%d.%s" % (ordinal, v)), z3.IntSort(), z3.BitVecSort(8)), 0, nn)
        elif cur is not _MISSING:
            frame.env[v] = _Poison(v)
    if not I.truth(frame.ev(node.test)):
        return True
    gap0 = V.arith("-", frame.ev(b_expr), frame.ev(a_expr))
    try:
        frame.exec_block(node.body)
    except _Break:
        return True
    except _Continue:
        pass
    if ordinal == target_ordinal:
        gap1 = V.arith("-", frame.ev(b_expr), frame.ev(a_expr))
        if stats is not None:
            stats["reached"] = stats.get("reached", 0) + 1
        raise LoopSummarized(dict(reached=True, variant=V.compare("<", gap1, gap0), old_len=gap0, new_len=gap1))
    return True


def make_for_hook(target_func):
    """`for x in <buffer of symbolic length>` inside the target function: a finite iteration over a sequence fixed
    before the loop (ground termination argument); it is skipped, the names it assigns are havocked"""
    code = target_func.__code__

    def hook(frame, node, it):
        if frame.f.__code__ is not code:
            return False
        it = frame.I.ctx.resolve(it)
        if (isinstance(it, (V.SBuf, V.SZeros)) and isinstance(frame.I.ctx.resolve(it.n), V.SInt)) or isinstance(it, V.SymRange):
            # (a SymRange got here only after its length was shown to be within the iteration bound)
            for v in assigned_names([node]):
                cur = frame.env.get(v, _MISSING)
                if not isinstance(cur, (list, dict)):
                    frame.env[v] = _Poison(v)
            return True
        return False

    return hook


class _Poison:
    """value of a loop-carried scalar after havoc: any use makes the unit undecided"""

    def __init__(self, name):
        self.name = name

    def __getattr__(self, k):
        raise Unsupported("loop-carried variable %s is read before it is assigned in the loop body" % object.__getattribute__(self, "name"))

    def __bool__(self):
        raise Unsupported("loop-carried variable %s is read before it is assigned in the loop body" % self.name)


_MISSING = object()

# pyvc.unit -- verification units (a real function + its contract + the cases it is verified for),
# the symbolic / native executors, and the per-(unit, case) verification job.
#
# This module must import without z3 (the replay harness runs under the repository's interpreter).
import json
import os
import time
import traceback

from . import values as V
from .values import EngineSignal, Unsupported, SInt, SBool, SBytes, SBuf, SMBuf, SZeros, SOpaque, SStr

REGISTRY = {}


def register(unit):
    if unit.name in REGISTRY:
        raise RuntimeError("duplicate unit " + unit.name)
    REGISTRY[unit.name] = unit
    return unit


# ------------------------------------------------------------------------------------------------ inputs


class Decl:
    kind = "?"


class U(Decl):
    """unsigned integer of `bits` bits (value-sorted)"""

    def __init__(self, bits=None, lo=0, hi=None):
        self.lo = lo
        self.hi = hi if hi is not None else (1 << bits) - 1

    def _bits(self):
        """k if the range is exactly 0 .. 2**k-1 (then the range is structural: a zero-extended k-bit variable)"""
        if self.lo == 0 and self.hi > 0 and (self.hi + 1) & self.hi == 0 and self.hi.bit_length() < V.W:
            return self.hi.bit_length()
        return None

    def make(self, name):
        k = self._bits()
        if k is not None:
            import z3

            return SInt(z3.ZeroExt(V.W - k, z3.BitVec(name, k)), 0, self.hi)
        return V.sym_bv(name, self.lo, self.hi)

    def constraints(self, v):
        if self._bits() is not None:
            return []
        return [V.range_constraint(v)]

    def from_model(self, model, v):
        import z3

        return model.eval(v.e, model_completion=True).as_signed_long()

    def samples(self, rng):
        xs = {self.lo, self.hi, (self.lo + self.hi) // 2}
        span = self.hi - self.lo
        b = 1
        while b <= span:
            xs.add(self.lo + b)
            b <<= 1
        return sorted(xs)

    def decode(self, j):
        return int(j)


def R(lo, hi):
    return U(lo=lo, hi=hi)


class Size(U):
    """integer used as a length / offset (size-sorted: z3 Int)"""

    def make(self, name):
        return V.sym_size(name, self.lo, self.hi)

    def from_model(self, model, v):
        return model.eval(v.e, model_completion=True).as_long()


class Bytes(Decl):
    """buffer of concrete length n with symbolic cells"""

    def __init__(self, n, mutable=True):
        self.n = n
        self.mutable = mutable

    def make(self, name):
        import z3

        sb = SBytes([SInt(z3.ZeroExt(V.W - 8, z3.BitVec("%s[%d]" % (name, i), 8)), 0, 255) for i in range(self.n)], self.mutable)
        sb._initial_cells = tuple(sb.cells)  # the real code may mutate (even resize) the buffer; inputs are the initial cells
        return sb

    def constraints(self, v):
        return []

    def from_model(self, model, v):
        return [model.eval(c.e, model_completion=True).as_long() & 0xFF for c in getattr(v, "_initial_cells", v.cells)]

    def decode(self, j):
        return bytearray(j) if self.mutable else bytes(j)


class Buf(Decl):
    """buffer of symbolic length 0..maxlen with arbitrary contents (device data)"""

    def __init__(self, maxlen=1 << 16, minlen=0):
        self.maxlen = maxlen
        self.minlen = minlen

    def make(self, name):
        import z3

        arr = z3.Array(name, z3.IntSort(), z3.BitVecSort(8))
        n = V.sym_size(name + ".len", self.minlen, self.maxlen)
        return SBuf(arr, 0, n)

    def constraints(self, v):
        return [V.range_constraint(v.n)]

    def from_model(self, model, v):
        import z3

        n = model.eval(v.n.e, model_completion=True).as_long()
        return self._cells(model, v.arr, n)

    @staticmethod
    def _cells(model, arr, n):
        import z3

        cell = lambda i: model.eval(z3.Select(arr, z3.IntVal(i)), model_completion=True).as_long()
        if n <= 4096:
            return [cell(i) for i in range(n)]
        # a long buffer (the length is what matters to the counterexample): its length, the first 256 and the last 16
        # bytes of the model; the bytes in between are zero in the replay
        return {"len": n, "head": [cell(i) for i in range(256)], "tail": [cell(i) for i in range(n - 16, n)]}

    def decode(self, j):
        if isinstance(j, dict):
            b = bytearray(j["len"])
            b[: len(j["head"])] = bytes(j["head"])
            if j["tail"]:
                b[-len(j["tail"]):] = bytes(j["tail"])
            return b
        return bytearray(j)


class MBuf(Buf):
    """mutable buffer of symbolic length with arbitrary initial contents (array-backed)"""

    def make(self, name):
        import z3

        arr = z3.Array(name, z3.IntSort(), z3.BitVecSort(8))
        n = V.sym_size(name + ".len", self.minlen, self.maxlen)
        return V.SMBuf(arr, n)

    def from_model(self, model, v):
        import z3

        n = model.eval(v.n.e, model_completion=True).as_long()
        return self._cells(model, v.arr0, n)


class Flag(Decl):
    """python bool"""

    def make(self, name):
        import z3

        return SBool(z3.Bool(name))

    def constraints(self, v):
        return []

    def from_model(self, model, v):
        import z3

        return bool(z3.is_true(model.eval(v.e, model_completion=True)))

    def decode(self, j):
        return bool(j)


class Str(Decl):
    def make(self, name):
        import z3

        return SStr(z3.String(name))

    def constraints(self, v):
        return []

    def from_model(self, model, v):
        return model.eval(v.e, model_completion=True).as_string()

    def decode(self, j):
        return str(j)


class Args(dict):
    """declared inputs by name; attribute access for convenience"""

    def __getattr__(self, k):
        try:
            return self[k]
        except KeyError:
            raise AttributeError(k)


# ------------------------------------------------------------------------------------------------ executors


class NativeExec:
    """runs the real code with CPython (replay, cross-check)"""

    symbolic = False

    def __init__(self):
        self.trace = []
        self.writes = []
        self.calls = []

    def call(self, f, *args, **kwargs):
        try:
            return f(*args, **kwargs)
        except EngineSignal:
            raise
        except BaseException as ex:
            _mark_real(ex)
            raise

    def getattr(self, obj, name):
        return getattr(obj, name)

    def setattr(self, obj, name, v):
        setattr(obj, name, v)

    def oblige(self, name, cond):
        self.trace.append(("obligation", name, cond))


class SymExec:
    """runs the real code through the interpreter"""

    symbolic = True

    def __init__(self, interp):
        self.I = interp
        self.ctx = interp.ctx

    @property
    def trace(self):
        return self.ctx.trace

    @property
    def writes(self):
        return self.ctx.writes

    @property
    def calls(self):
        return self.I.calls

    def call(self, f, *args, **kwargs):
        try:
            return self.I.call(f, list(args), kwargs)
        except EngineSignal:
            raise
        except BaseException as ex:
            _mark_real(ex)
            raise

    def getattr(self, obj, name):
        from .builtins_model import I_frame_getattr

        return I_frame_getattr(self.I, obj, name)

    def setattr(self, obj, name, v):
        from .builtins_model import _frame

        _frame(self.I).set_attr(obj, name, v)

    def oblige(self, name, cond):
        self.ctx.oblige(name, cond)


class Undecided:
    """a clause the contract cannot decide (e.g. a name the reference does not know): reported as undecided,
    never as a pass and never as a violation"""

    def __init__(self, reason):
        self.reason = reason


def _mark_real(ex):
    """exceptions that leave the code under verification through X.call (as opposed to bugs of the contract)"""
    try:
        ex._pyvc_real = True
    except Exception:
        pass


class ContractError(EngineSignal):
    """the contract / spec code itself raised: a checker error, never a verdict"""


def outcome_of_exception(ex):
    if not getattr(ex, "_pyvc_real", False):
        import traceback

        raise ContractError("contract code raised %r\n%s" % (ex, "".join(traceback.format_exception(type(ex), ex, ex.__traceback__))[-1500:]))
    return Outcome("raise", exc=ex)


class Outcome:
    def __init__(self, kind, value=None, exc=None):
        self.kind = kind  # 'return' | 'raise'
        self.value = value
        self.exc = exc

    def returned(self):
        return self.kind == "return"

    def raised(self, cls_or_name=None):
        if self.kind != "raise":
            return False
        if cls_or_name is None:
            return True
        if isinstance(cls_or_name, str):
            return any(k.__name__ == cls_or_name for k in type(self.exc).__mro__)
        return isinstance(self.exc, cls_or_name)

    def describe(self):
        if self.kind == "return":
            return "return"
        if self.kind == "loopbound":
            return "does not terminate within the iteration / line-event budget"
        return "raise %s(%s)" % (type(self.exc).__name__, _safe_str(self.exc))


def _safe_str(ex):
    try:
        return ", ".join(repr(a) if not V.is_sym(a) else "<symbolic>" for a in ex.args)[:200]
    except Exception:
        return "?"


# ------------------------------------------------------------------------------------------------ units


class Unit:
    """Base class.  Subclasses describe: which real functions are under contract, for which cases, the inputs
    (quantified over their whole declared range), the precondition, how the real code is invoked and the
    postcondition as named clauses tagged with the property they belong to."""

    name = None
    properties = ()
    level = "proof"  # 'proof' | 'bounded' (a stated bound on a data-dependent trip count etc.)
    bound_note = None
    mode = "modular"  # callee contracts used for L0 (pyvc.unit.Config decides)
    max_paths = 20000
    loop_bound = 100000

    def functions(self):
        """real function objects under contract in this unit"""
        return []

    def cases(self, tier):
        return [{}]

    def case_id(self, case):
        return ",".join("%s=%s" % (k, case[k]) for k in sorted(case)) or "-"

    def inputs(self, case):
        return {}

    def requires(self, case, a):
        return []

    def setup(self, X, case, a):
        """per-path preparation (externals, stubs); returns an opaque env passed to run()"""
        return None

    def interp_config(self, case):
        """dict(externals=..., contracts=..., native=..., trusted_modules=...) for the interpreter"""
        return {}

    def run(self, X, case, a):
        raise NotImplementedError

    def ensures(self, case, a, out, X):
        """yields (property_id, clause_name, condition)"""
        return []

    def canaries(self, case, a, out, X):
        """yields (clause_name, condition): deliberately false clauses that must be refuted"""
        return []

    def frame_extra(self, case, a):
        """[(object, label)]: pre-existing instances whose attributes belong to the frame check"""
        return []


def probe_inputs(decls, rng, k):
    """k concrete input assignments (JSON form) for native probing: boundary values first, then pseudo-random ones.
    Used only to LOOK FOR a counterexample where the symbolic execution is not available -- never to establish
    anything."""

    def one(d, mode):
        if isinstance(d, U):  # (Size is a U)
            span = d.hi - d.lo
            small = min(d.hi, d.lo + 64)
            if mode == "lo":
                return d.lo
            if mode == "hi":
                return d.hi if span < (1 << 16) or not isinstance(d, Size) else small
            if isinstance(d, Size):
                return rng.randint(d.lo, small)
            if mode == "small":
                return min(d.hi, d.lo + rng.getrandbits(rng.randint(0, 8)))
            r = rng.random()
            if r < 0.25:
                return d.lo + (1 << rng.randrange(0, max(1, span.bit_length()))) % (span + 1)
            if r < 0.4:
                return d.hi - rng.randint(0, min(span, 3))
            return rng.randint(d.lo, d.hi)
        if isinstance(d, Bytes):
            if mode == "lo":
                return [0] * d.n
            if mode == "hi":
                return [255] * d.n
            return [rng.choice((0, 1, 0x7F, 0x80, 0xFF, rng.randrange(256))) for _ in range(d.n)]
        if isinstance(d, Buf):
            top = min(d.maxlen, max(d.minlen, 64))
            n = d.minlen if mode == "lo" else top if mode == "hi" else rng.randint(d.minlen, top)
            return [0 if mode == "lo" else rng.choice((0, 1, 0xFF, rng.randrange(256))) for _ in range(n)]
        if isinstance(d, Flag):
            return mode == "hi" if mode in ("lo", "hi") else rng.random() < 0.5
        if isinstance(d, Str):
            return {"lo": "", "hi": "/dev/sg0"}.get(mode) if mode in ("lo", "hi") else rng.choice(["/dev/sg1", "iscsi://h/iqn.t/1", "x", "/dev/", "ISCSI://H/T/0"])
        raise Unsupported("no probe values for %s" % type(d).__name__)

    out = []
    for i in range(k):
        # boundary values, then small values (transfer sizes stay small), then the full range
        mode = "lo" if i == 0 else "small" if i < 2 + (k - 2) // 2 else "hi" if i == 2 + (k - 2) // 2 else "random"
        out.append({name: one(d, mode) for name, d in decls.items()})
    return out


def model_inputs(decls, syms, model):
    return {k: decls[k].from_model(model, syms[k]) for k in decls}


def decode_inputs(decls, j):
    return Args({k: decls[k].decode(j[k]) for k in decls})


# ------------------------------------------------------------------------------------------------ native evaluation


def run_native(unit, case, inputs_json, frame=True):
    """run the unit on concrete inputs with CPython; returns (outcome, [(prop, clause, bool)], canaries)"""
    decls = unit.inputs(case)
    a = decode_inputs(decls, inputs_json)
    X = NativeExec()
    for r in unit.requires(case, a):
        if not r:
            return None, None, None
    import contextlib
    import io

    guard = None
    if frame and getattr(unit, "frame_check", False):
        from .state import StateGuard

        guard = StateGuard()
        guard.snapshot()
    import signal

    class _NativeTimeout(BaseException):
        pass

    def _alarm(*_):
        raise _NativeTimeout()

    # the real code on concrete inputs finishes in milliseconds; a run that is still going after native_timeout seconds
    # is recorded as an outcome of its own ("does not return"), not waited for (only if no other timer is pending)
    limit = getattr(unit, "native_timeout", 60)
    armed = False
    try:
        if limit and signal.getitimer(signal.ITIMER_REAL)[0] == 0:
            old_handler = signal.signal(signal.SIGALRM, _alarm)
            signal.setitimer(signal.ITIMER_REAL, limit)
            armed = True
    except ValueError:  # not the main thread
        armed = False
    with contextlib.redirect_stdout(io.StringIO()):  # the real code may print (print_data, print_cdb)
        try:
            try:
                val = unit.run(X, case, a)
                out = Outcome("return", val)
            finally:
                if armed:
                    signal.setitimer(signal.ITIMER_REAL, 0)
                    signal.signal(signal.SIGALRM, old_handler)
        except _NativeTimeout:
            out = Outcome("loopbound")
        except V.LoopBound:
            out = Outcome("loopbound")
        except EngineSignal:
            raise
        except BaseException as ex:
            out = outcome_of_exception(ex)
        clauses = [(p, n, _as_bool(c)) for p, n, c in unit.ensures(case, a, out, X)]
    if guard is not None:
        diffs = guard.diff()
        guard.restore(diffs)
        clauses.append(("C09", "frame:net-effect-on-package-state-is-empty%s" % (" (" + "; ".join("%s.%s %s" % d for d in diffs[:4]) + ")" if diffs else ""), not diffs))
    for n, c in [(t[1], t[2]) for t in X.trace if t[0] == "obligation"]:
        clauses.append(("*", n, _as_bool(c)))
    return out, clauses, a


def _as_bool(c):
    if isinstance(c, Undecided):
        return True
    if isinstance(c, (SBool, SInt)):
        raise Unsupported("symbolic clause in native evaluation")
    return bool(c)

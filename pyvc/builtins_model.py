# pyvc.builtins_model -- built-ins and C-level methods as seen by the interpreter.
# Concrete arguments: the real function is called.  Symbolic arguments: only the models below.
import builtins
import types

import z3

from . import values as V
from .values import Unsupported, SInt, SBool, SBytes, SBuf, SMBuf, SZeros, SOpaque, SStr, is_sym, contains_sym


def _mk_bytes(I, args, mutable):
    if len(args) == 0:
        return SBytes([], mutable)
    a = I.ctx.resolve(args[0])
    if len(args) > 1:
        if contains_sym(args):
            raise Unsupported("bytes(str, encoding) with symbolic data")
        return SBytes(list(bytes(*args)), mutable)
    if isinstance(a, bool):
        a = int(a)
    if isinstance(a, int):
        if a < 0:
            raise ValueError("negative count")
        if a > (1 << 20):
            return SZeros(a)
        return SBytes([0] * a, mutable)
    if isinstance(a, SInt):
        if not I.truth(V.compare(">=", a, 0)):
            raise ValueError("negative count")
        return SZeros(a)
    if isinstance(a, SBytes):
        return SBytes(a.cells, mutable)
    if isinstance(a, SBuf):
        return a  # immutable view of device data; copying keeps contents
    if isinstance(a, SZeros):
        z = SZeros(a.n)
        z.havoc = a.havoc
        return z
    if isinstance(a, (bytes, bytearray)):
        return SBytes(list(a), mutable)
    if isinstance(a, str):
        raise TypeError("string argument without an encoding")
    if isinstance(a, SOpaque):
        raise Unsupported("bytes of uninterpreted value")
    if a is None:
        raise TypeError("cannot convert 'NoneType' object to bytearray")
    cells = []
    for c in a:  # iterable of ints
        c = I.ctx.resolve(c)
        if isinstance(c, SInt):
            _byte_range(I, c)
        elif isinstance(c, SBool):
            c = V.ite(c, 1, 0)
        elif not isinstance(c, int):
            raise TypeError("'%s' object cannot be interpreted as an integer" % type(c).__name__)
        elif not 0 <= c <= 255:
            raise ValueError("byte must be in range(0, 256)")
        cells.append(c)
    return SBytes(cells, mutable)


def _byte_range(I, v):
    if v.lo is not None and v.hi is not None and 0 <= v.lo and v.hi <= 255:
        return
    if not I.truth(V.band(V.compare(">=", v, 0), V.compare("<=", v, 255))):
        raise ValueError("byte must be in range(0, 256)")


def _len(I, a):
    a = I.ctx.resolve(a)
    if isinstance(a, SBytes):
        return len(a.cells)
    if isinstance(a, (SBuf, SZeros, SMBuf)):
        return I.ctx.resolve(a.n)
    if isinstance(a, SStr):
        return SInt(z3.Length(a.e), 0, None)
    if is_sym(a):
        raise TypeError("object of type '%s' has no len()" % type(a).__name__)
    return len(a)


def _sum(I, args):
    tot = args[1] if len(args) > 1 else 0
    for x in args[0]:
        tot = I.binop(__import__("ast").Add, tot, x)
    return tot


def _minmax(I, f, args, kwargs):
    if kwargs:
        raise Unsupported("min/max with key/default on symbolic data")
    xs = list(args[0]) if len(args) == 1 else list(args)
    r = xs[0]
    for x in xs[1:]:
        c = V.compare("<" if f is builtins.min else ">", x, r)
        r = V.ite(c, x, r)
    return r


def _int(I, args, kwargs):
    a = I.ctx.resolve(args[0]) if args else 0
    if isinstance(a, SInt):
        return a
    if isinstance(a, SBool):
        return V.ite(a, 1, 0)
    raise Unsupported("int() of %s" % type(a).__name__)


def _range(I, args):
    cs = [I.ctx.resolve(a) for a in args]
    if not any(isinstance(a, (SInt, SBool)) for a in cs):
        return range(*cs)
    start, stop, step = (0, cs[0], 1) if len(cs) == 1 else (cs[0], cs[1], 1) if len(cs) == 2 else cs
    if isinstance(step, (SInt, SBool)):
        step = I.ctx.concretize(step)
    if step < 1:
        return range(*[I.ctx.concretize(a) if isinstance(a, (SInt, SBool)) else a for a in (start, stop)], step)
    # a loop over range(<symbolic>): its length is checked against the iteration bound of the exploration (for the
    # termination contracts: 2 * len(buffer) + 8) BEFORE the first iteration -- a range whose length a device-supplied
    # value controls ends the path as `loopbound`
    count = V.range_count(start, stop, step)
    rb = getattr(I.ctx, "range_bound", None)
    bound = rb if rb is not None else I.ctx.loop_bound
    if bound is not None and I.truth(V.compare(">", count, bound)):
        raise V.LoopBound()
    if rb is not None:
        return V.SymRange(start, stop, step, count)  # unbounded contracts: the loop is summarised (for_hook)
    # within the bound: one path per value (the values are pinned, later uses of the same expressions are concrete)
    try:
        return range(*[I.ctx.concretize(a) if isinstance(a, (SInt, SBool)) else a for a in (start, stop)], step)
    except Unsupported:
        return V.SymRange(start, stop, step, count)  # too many values: iterated lazily, one decision per iteration


def _isinstance(I, obj, cls):
    cl = cls if isinstance(cls, tuple) else (cls,)
    if isinstance(obj, SInt):
        return any(c in (int, object) for c in cl)
    if isinstance(obj, SBool):
        return any(c in (bool, int, object) for c in cl)
    if isinstance(obj, (SBytes,)):
        return any(c in ((bytearray, object) if obj.mutable else (bytes, object)) for c in cl)
    if isinstance(obj, (SZeros, SMBuf)):
        return any(c in (bytearray, object) for c in cl)
    if isinstance(obj, SBuf):
        return any(c in (bytearray, bytes, object) for c in cl)
    if isinstance(obj, SStr):
        return any(c in (str, object) for c in cl)
    if isinstance(obj, SOpaque):
        if obj.tag.endswith("text"):
            return any(c in (str, object) for c in cl)
        raise Unsupported("isinstance of uninterpreted value")
    return isinstance(obj, cls)


def _type(I, obj):
    if isinstance(obj, SInt):
        return int
    if isinstance(obj, SBool):
        return bool
    if isinstance(obj, SBytes):
        return bytearray if obj.mutable else bytes
    if isinstance(obj, (SZeros, SBuf)):
        return bytearray
    if isinstance(obj, SStr):
        return str
    if isinstance(obj, SOpaque) and obj.tag.endswith("text"):
        return str
    if is_sym(obj):
        raise Unsupported("type() of %s" % type(obj).__name__)
    return type(obj)


def _text(I, tag, *args):
    return SOpaque(tag + "-text", *args)


def call(I, f, args, kwargs):
    args = [I.ctx.resolve(a) for a in args]
    if isinstance(f, _Method):
        return f(*args, **kwargs)  # a modelled method of an interpreter-level value
    # ---- constructors that must produce interpreter-level buffers even for concrete arguments
    if f is builtins.bytearray:
        return _mk_bytes(I, args, True)
    if f is builtins.bytes:
        if args and isinstance(args[0], str):
            return SBytes(list(bytes(*args, **kwargs)), False)
        return _mk_bytes(I, args, False)
    if f is builtins.len:
        return _len(I, args[0])
    if f is builtins.isinstance:
        return _isinstance(I, args[0], args[1])
    if f is builtins.type and len(args) == 1:
        return _type(I, args[0])
    if f is builtins.getattr:
        try:
            return I_frame_getattr(I, args[0], args[1])
        except AttributeError:
            if len(args) > 2:
                return args[2]
            raise
    if f is builtins.setattr:
        _frame(I).set_attr(args[0], args[1], args[2])
        return None
    if f is builtins.delattr:
        I.ctx.writes.append((args[0], "delattr", args[1]))
        return delattr(args[0], args[1])
    if f is builtins.hasattr:
        try:
            I_frame_getattr(I, args[0], args[1])
            return True
        except AttributeError:
            return False
    if f is builtins.next:
        it = args[0]
        if isinstance(it, list):  # eagerly evaluated generator expression
            if it:
                return it.pop(0)
            if len(args) > 1:
                return args[1]
            raise StopIteration
        return next(*args)
    if f is builtins.print:
        I.ctx.trace.append(("print", tuple(args)))
        return None
    if f is builtins.super:
        return super(*args)

    sym = contains_sym(args) or contains_sym(kwargs)
    selfobj = getattr(f, "__self__", None)
    if isinstance(selfobj, types.ModuleType):
        selfobj = None
    if getattr(f, "__pyvc_trusted__", False) or getattr(getattr(f, "__func__", None), "__pyvc_trusted__", False) \
            or getattr(type(selfobj), "__pyvc_trusted__", False) or getattr(f, "__module__", None) in I.trusted_modules:
        return f(*args, **kwargs)  # stub of an external binding / spec function: runs natively on symbolic values
    if not sym and not is_sym(selfobj):
        return f(*nativize(args), **nativize(kwargs))

    # ---- symbolic arguments: modelled built-ins only
    if isinstance(f, type) and issubclass(f, BaseException):
        return f(*args, **kwargs)  # exception objects only store their arguments
    if f is types.SimpleNamespace:
        return f(*args, **kwargs)  # a plain attribute holder
    if f is builtins.sum:
        return _sum(I, args)
    if f in (builtins.min, builtins.max):
        return _minmax(I, f, args, kwargs)
    if f is builtins.int:
        return _int(I, args, kwargs)
    if f is builtins.bool:
        return I.truth(args[0])
    if f is builtins.range:
        return _range(I, args)
    if f is builtins.reversed:
        return list(reversed(list(_frame(I).iterate(args[0]))))
    if f in (builtins.list, builtins.tuple):
        if args and isinstance(args[0], (SBuf, SZeros)) and isinstance(I.ctx.resolve(args[0].n), SInt) and (getattr(I.ctx, "range_bound", None) is not None or getattr(I.ctx, "summarise", False)):
            # termination contracts over buffers of any length: the copy is a finite loop over the buffer; its contents
            # do not matter there (as for a `for` over the buffer, see loops.make_for_hook)
            return SOpaque("list-of-the-bytes-of-a-buffer-of-symbolic-length", args[0])
        return f(_frame(I).iterate(args[0])) if args else f()
    if f is builtins.enumerate:
        return list(enumerate(_frame(I).iterate(args[0]), *args[1:]))
    if f is builtins.zip:
        return list(zip(*[_frame(I).iterate(a) for a in args]))
    if f is builtins.dict:
        return dict(*args, **kwargs)
    if f is builtins.set:
        if any(is_sym(x) for x in args[0]):
            raise Unsupported("set of symbolic values")
        return set(*args)
    if f is builtins.callable:
        return False if is_sym(args[0]) else callable(args[0])
    if f is builtins.id:
        return id(args[0])
    if f is builtins.abs:
        a = args[0]
        return V.ite(V.compare("<", a, 0), V.arith("-", 0, a), a)
    if f is builtins.divmod:
        import ast as _ast

        return (I.binop(_ast.FloorDiv, args[0], args[1]), I.binop(_ast.Mod, args[0], args[1]))
    if f in (builtins.hex, builtins.str, builtins.repr, builtins.format, builtins.chr, builtins.bin, builtins.oct):
        return _text(I, f.__name__, *args)
    if f is builtins.all:
        return V.band(*list(args[0])) if args[0] else True
    if f is builtins.any:
        return V.bor(*list(args[0])) if args[0] else False
    if f is builtins.vars or f is builtins.dir:
        return f(*args)

    # ---- methods of real containers that only store / fetch values
    if selfobj is not None and not is_sym(selfobj):
        name = getattr(f, "__name__", "")
        if isinstance(selfobj, dict):
            if name in ("update", "setdefault", "copy", "items", "values", "keys", "clear", "popitem"):
                return f(*args, **kwargs)
            if name in ("get", "pop", "__getitem__", "__contains__"):
                if is_sym(args[0]):
                    if isinstance(args[0], (SInt, SBool)) and name in ("get", "__getitem__"):
                        present = I.contains(selfobj, args[0])
                        if I.truth(present):
                            return _frame(I).sym_lookup(selfobj, args[0])
                        if name == "get":
                            return args[1] if len(args) > 1 else None
                        raise KeyError(args[0])
                    raise Unsupported("dict.%s with symbolic key" % name)
                return f(*args, **kwargs)
        if isinstance(selfobj, list):
            if name in ("append", "extend", "insert", "copy", "pop", "clear", "reverse"):
                if name == "extend":
                    return f(list(_frame(I).iterate(args[0])))
                return f(*args, **kwargs)
            if name in ("index", "count", "remove", "__contains__"):
                raise Unsupported("list.%s with symbolic values" % name)
        if isinstance(selfobj, (bytes, bytearray)):
            if name == "join":
                cells = []
                parts = list(args[0])
                for i, p in enumerate(parts):
                    if i:
                        cells.extend(selfobj)
                    cells.extend(list(p))
                return SBytes(cells, isinstance(selfobj, bytearray))
            if name in ("extend", "__iadd__"):
                raise Unsupported("native bytearray extended with symbolic cells")
        if isinstance(selfobj, str):
            if name in ("format", "join", "__mod__"):
                return _text(I, "str." + name, selfobj, *args)
        if isinstance(selfobj, set) and name in ("add",):
            raise Unsupported("set.add of symbolic value")
    r = _bytes_int_codecs(I, f, selfobj, args, kwargs)
    if r is not _NO:
        return r
    raise Unsupported("native call %s with symbolic arguments" % getattr(f, "__qualname__", getattr(f, "__name__", repr(f))))


_NO = object()
_STRUCT_SIZES = {"B": 1, "H": 2, "I": 4, "L": 4, "Q": 8, "b": 1, "h": 2, "i": 4, "l": 4, "q": 8, "x": 1}


def _struct_layout(fmt):
    """[(code, size)] and byte order for standard-size struct formats ('<' '>' '!' '='); None otherwise"""
    import re as _re

    if isinstance(fmt, bytes):
        fmt = fmt.decode()
    if not isinstance(fmt, str) or not fmt or fmt[0] not in "<>!=":
        return None
    order = "little" if fmt[0] in "<=" else "big"
    items = []
    for cnt, code in _re.findall(r"\s*(\d*)([A-Za-z?])", fmt[1:]):
        if code not in _STRUCT_SIZES:
            return None
        items.extend([(code, _STRUCT_SIZES[code])] * (int(cnt) if cnt else 1))
    return order, items


def _cells_of(I, buf, lo, n):
    fr = _frame(I)
    if isinstance(buf, (bytes, bytearray)):
        if lo + n > len(buf):
            return None
        return list(buf[lo:lo + n])
    if isinstance(buf, SBytes):
        if lo + n > len(buf.cells):
            return None
        return buf.cells[lo:lo + n]
    return None


def _bytes_int_codecs(I, f, selfobj, args, kwargs):
    """int.from_bytes and the struct module on symbolic values (standard sizes, unsigned codes)"""
    import struct as _struct

    name = getattr(f, "__name__", "")
    if name == "from_bytes" and selfobj is int:
        buf = args[0]
        order = args[1] if len(args) > 1 else kwargs.get("byteorder", "big")
        if kwargs.get("signed") or (len(args) > 2 and args[2]):
            raise Unsupported("int.from_bytes signed")
        if isinstance(buf, (SBuf, SMBuf, SZeros)):
            n = I.ctx.concretize(V.buf_len(buf))
            cells = [_frame(I).buf_index(buf if isinstance(buf, SBuf) else SBuf(buf.arr, 0, buf.n), i) for i in range(n)] if not isinstance(buf, SZeros) else [0] * n
        else:
            cells = list(buf)
        if order == "little":
            cells = cells[::-1]
        return V.be_int(cells) if cells else 0
    st = selfobj if isinstance(selfobj, _struct.Struct) else None
    if st is None and f not in (_struct.pack, _struct.unpack, _struct.pack_into, _struct.unpack_from):
        return _NO
    fmt = st.format if st is not None else args[0]
    rest = list(args if st is not None else args[1:])
    lay = _struct_layout(fmt)
    if lay is None:
        raise Unsupported("struct format %r with symbolic values" % (fmt,))
    order, items = lay
    total = sum(sz for _, sz in items)

    def pack(vals):
        vals = list(vals)
        if len(vals) != sum(1 for c, _ in items if c != "x"):
            raise _struct.error("pack expected %d items for packing (got %d)" % (sum(1 for c, _ in items if c != "x"), len(vals)))
        cells = []
        for code, sz in items:
            if code == "x":
                cells.append(0)
                continue
            v = vals.pop(0)
            if code.islower():
                if is_sym(v):
                    raise Unsupported("struct signed code with symbolic value")
                cells.extend(v.to_bytes(sz, order, signed=True))
                continue
            if not I.truth(V.band(V.compare(">=", v, 0), V.compare("<", v, 1 << (8 * sz)))):
                raise _struct.error("argument out of range")
            c = V.be_bytes(v, sz)
            cells.extend(c[::-1] if order == "little" else c)
        return cells

    def unpack(cells):
        out, pos = [], 0
        for code, sz in items:
            chunk = cells[pos:pos + sz]
            pos += sz
            if code == "x":
                continue
            if code.islower():
                if contains_sym(chunk):
                    # two's complement: the sign bit is decided (both outcomes explored)
                    u = V.be_int(chunk[::-1] if order == "little" else chunk)
                    if I.truth(V.compare(">=", u, 1 << (8 * sz - 1))):
                        out.append(V.arith("-", u, 1 << (8 * sz)))
                    else:
                        out.append(u)
                    continue
                out.append(int.from_bytes(bytes(chunk), order, signed=True))
                continue
            out.append(V.be_int(chunk[::-1] if order == "little" else chunk))
        return tuple(out)

    if name == "pack":
        return SBytes(pack(rest), False)
    if name == "pack_into":
        buf, off = rest[0], rest[1]
        if is_sym(off):
            off = I.ctx.concretize(off)
        cells = pack(rest[2:])
        n = len(buf) if not isinstance(buf, (SBuf, SMBuf, SZeros)) else None
        if n is None:
            raise Unsupported("struct.pack_into a symbolic-length buffer")
        if off < 0:
            off += n
        if off < 0 or off + total > n:
            raise _struct.error("pack_into requires a buffer of at least %d bytes" % (off + total))
        fr = _frame(I)
        for i, c in enumerate(cells):
            fr.store_subscript(buf, off + i, c)
        return None
    if name in ("unpack", "unpack_from"):
        buf = rest[0]
        off = (rest[1] if len(rest) > 1 else kwargs.get("offset", 0)) if name == "unpack_from" else 0
        if isinstance(buf, (SBuf, SMBuf, SZeros)):
            # a buffer of symbolic length: the length requirement is decided (both outcomes explored), the bytes are
            # read by index
            n = I.ctx.resolve(buf.n)
            if is_sym(off):
                raise Unsupported("struct.unpack_from at a symbolic offset")
            if name == "unpack":
                if not I.truth(n == total):
                    raise _struct.error("unpack requires a buffer of %d bytes" % total)
            elif off < 0 or not I.truth(n >= off + total):
                raise _struct.error("unpack_from requires a buffer of at least %d bytes" % (off + total))
            fr = _frame(I)
            view = buf if isinstance(buf, SBuf) else (SBuf(buf.arr, 0, buf.n) if isinstance(buf, SMBuf) else None)
            return unpack([fr.buf_index(view, off + i) if view is not None else 0 for i in range(total)])
        cells = list(buf)
        if name == "unpack" and len(cells) != total:
            raise _struct.error("unpack requires a buffer of %d bytes" % total)
        if off < 0 or off + total > len(cells):
            raise _struct.error("unpack_from requires a buffer of at least %d bytes" % (off + total))
        return unpack(cells[off:off + total])
    return _NO


def nativize(x, depth=0):
    """concrete interpreter-level buffers become real bytes/bytearray before a native call"""
    if isinstance(x, SBytes):
        return x.concrete()
    if depth > 3:
        return x
    if isinstance(x, list) and any(isinstance(v, (SBytes, list, tuple, dict)) for v in x):
        return [nativize(v, depth + 1) for v in x]
    if isinstance(x, tuple) and any(isinstance(v, (SBytes, list, tuple, dict)) for v in x):
        return tuple(nativize(v, depth + 1) for v in x)
    if isinstance(x, dict) and any(isinstance(v, (SBytes, list, tuple, dict)) for v in x.values()):
        return {k: nativize(v, depth + 1) for k, v in x.items()}
    return x


def _frame(I):
    from .interp import Frame

    fr = getattr(I, "_util_frame", None)
    if fr is None:
        fr = Frame(I, call, {})
        I._util_frame = fr
    return fr


def I_frame_getattr(I, obj, name):
    return _frame(I).get_attr(obj, name)


# ---------------------------------------------------------------------------------------------------------
# attributes / methods of symbolic values


class _Method:
    """bound method of a symbolic value"""

    def __init__(self, fn, name):
        self.fn = fn
        self.__name__ = name

    def __call__(self, *a, **k):
        return self.fn(*a, **k)


def sym_attr(I, obj, name):
    if isinstance(obj, SBytes):
        return _sbytes_attr(I, obj, name)
    if isinstance(obj, (SBuf, SZeros)):
        if name == "hex":
            return _Method(lambda *a, **k: _text(I, "bytes.hex", obj), name)
        if name == "decode":
            return _Method(lambda *a, **k: _decode(I, obj), name)
        raise Unsupported("attribute %s of a symbolic-length buffer" % name)
    if isinstance(obj, SInt):
        if name == "to_bytes":
            def to_bytes(length=1, byteorder="big", signed=False):
                if signed or is_sym(length):
                    raise Unsupported("int.to_bytes signed / symbolic length")
                fits = V.band(V.compare(">=", obj, 0), V.compare("<", obj, 1 << (8 * length)))
                if not I.truth(fits):
                    raise OverflowError("int too big to convert")
                cells = V.be_bytes(obj, length)
                if byteorder == "little":
                    cells = cells[::-1]
                return SBytes(cells, False)

            return _Method(to_bytes, name)
        if name == "bit_length":
            raise Unsupported("bit_length of symbolic integer")
        raise AttributeError("'int' object has no attribute '%s'" % name)
    if isinstance(obj, SOpaque):
        if obj.tag.endswith("text"):
            if name in ("lower", "upper", "strip", "rstrip", "lstrip", "format", "join", "replace", "encode", "zfill", "ljust", "rjust", "title"):
                return _Method(lambda *a, **k: _text(I, "str." + name, obj, *a), name)
            if name == "split":
                return _Method(lambda *a, **k: SOpaque("split-text-list", obj, *a), name)
            if name in ("startswith", "endswith"):
                raise Unsupported("str.%s on text formatted from symbolic data" % name)
        return SOpaque("attr:%s.%s" % (obj.tag, name), obj)
    if isinstance(obj, SStr):
        if name in ("startswith", "endswith"):
            rel = z3.PrefixOf if name == "startswith" else z3.SuffixOf

            def _affix(p, *a):
                if a or not (isinstance(p, str) or (isinstance(p, tuple) and all(isinstance(q, str) for q in p))):
                    return _unsup("%s args" % name)
                ps = (p,) if isinstance(p, str) else p
                return SBool(z3.Or(*[rel(z3.StringVal(q), obj.e) for q in ps])) if ps else False

            return _Method(_affix, name)
        raise Unsupported("str.%s on symbolic string" % name)
    raise Unsupported("attribute %s of %s" % (name, type(obj).__name__))


def _decode(I, obj):
    """bytes.decode on symbolic contents: either the bytes are valid in the codec (uninterpreted text) or
    UnicodeDecodeError is raised -- both outcomes are explored"""
    ok = SBool(z3.Bool(V.fresh_name("decodable")))
    if not I.truth(ok):
        raise UnicodeDecodeError("utf-8", b"", 0, 1, "invalid byte (symbolic contents)")
    return _text(I, "bytes.decode", obj)


def _unsup(msg):
    raise Unsupported(msg)


def _sbytes_pad(obj, name, width, fill=b" "):
    if is_sym(width):
        raise Unsupported("bytes.%s with symbolic width" % name)
    f = fill[0] if isinstance(fill, (bytes, bytearray)) and len(fill) == 1 else None
    if f is None:
        raise TypeError("%s() argument 2 must be a byte string of length 1" % name)
    n = max(0, width - len(obj.cells))
    if name == "ljust":
        cells = list(obj.cells) + [f] * n
    elif name == "rjust":
        cells = [f] * n + list(obj.cells)
    else:  # center, as CPython: the extra byte goes to the left when both the margin and the width are odd
        left = n // 2 + (n & width & 1)
        cells = [f] * left + list(obj.cells) + [f] * (n - left)
    return SBytes(cells, obj.mutable)


def _sbytes_attr(I, obj, name):
    if name == "join":
        def join(parts):
            cells = []
            for i, p in enumerate(list(_frame(I).iterate(parts))):
                if i:
                    cells.extend(obj.cells)
                cells.extend(list(p))
            return SBytes(cells, obj.mutable)

        return _Method(join, name)
    if name in ("ljust", "rjust", "center") and not obj.is_concrete():
        return _Method(lambda width, fill=b" ": _sbytes_pad(obj, name, width, fill), name)
    if name == "zfill" and not obj.is_concrete():
        return _Method(lambda width: _sbytes_pad(obj, "rjust", width, b"0"), name)
    if obj.is_concrete() and name not in ("append", "extend", "insert", "pop", "clear", "reverse", "remove", "copy"):
        real = obj.concrete()
        m = getattr(real, name)

        def conc(*a, **k):
            a = [x.concrete() if isinstance(x, SBytes) and x.is_concrete() else x for x in a]
            if contains_sym(a):
                raise Unsupported("bytes.%s with symbolic arguments" % name)
            r = m(*a, **k)
            if isinstance(r, (bytes, bytearray)):
                return SBytes(list(r), isinstance(r, bytearray))
            return r

        return _Method(conc, name)
    if name == "append":
        def append(v):
            I.ctx.writes.append((obj, "method:append", None))
            if isinstance(v, SInt):
                _byte_range(I, v)
            obj.cells.append(v)

        return _Method(append, name)
    if name == "extend":
        def extend(v):
            I.ctx.writes.append((obj, "method:extend", None))
            obj.cells.extend(list(v))

        return _Method(extend, name)
    if name == "copy":
        return _Method(lambda: SBytes(obj.cells, obj.mutable), name)
    if name == "hex":
        return _Method(lambda *a, **k: _text(I, "bytes.hex", obj), name)
    if name == "decode":
        return _Method(lambda *a, **k: _decode(I, obj), name)
    if name == "join":
        def join(parts):
            cells = []
            for i, p in enumerate(list(parts)):
                if i:
                    cells.extend(obj.cells)
                cells.extend(list(p))
            return SBytes(cells, obj.mutable)

        return _Method(join, name)
    raise Unsupported("bytes.%s on symbolic cells" % name)

# pyvc.builtins_model -- built-ins and C-level methods as seen by the interpreter.
# Concrete arguments: the real function is called.  Symbolic arguments: only the models below.
import builtins
import types

import z3

from . import values as V
from .values import Unsupported, SInt, SBool, SBytes, SBuf, SMBuf, SZeros, SOpaque, SStr, is_sym, contains_sym


def _mk_bytes(I, args, mutable):
    if len(args) == 0:
        return SBytes([], mutable)
    a = I.ctx.resolve(args[0])
    if len(args) > 1:
        if contains_sym(args):
            raise Unsupported("bytes(str, encoding) with symbolic data")
        return SBytes(list(bytes(*args)), mutable)
    if isinstance(a, bool):
        a = int(a)
    if isinstance(a, int):
        if a < 0:
            raise ValueError("negative count")
        if a > (1 << 20):
            return SZeros(a)
        return SBytes([0] * a, mutable)
    if isinstance(a, SInt):
        if not I.truth(V.compare(">=", a, 0)):
            raise ValueError("negative count")
        return SZeros(a)
    if isinstance(a, SBytes):
        return SBytes(a.cells, mutable)
    if isinstance(a, SBuf):
        return a  # immutable view of device data; copying keeps contents
    if isinstance(a, SZeros):
        z = SZeros(a.n)
        z.havoc = a.havoc
        return z
    if isinstance(a, (bytes, bytearray)):
        return SBytes(list(a), mutable)
    if isinstance(a, str):
        raise TypeError("string argument without an encoding")
    if isinstance(a, SOpaque):
        raise Unsupported("bytes of uninterpreted value")
    if a is None:
        raise TypeError("cannot convert 'NoneType' object to bytearray")
    cells = []
    for c in a:  # iterable of ints
        c = I.ctx.resolve(c)
        if isinstance(c, SInt):
            _byte_range(I, c)
        elif isinstance(c, SBool):
            c = V.ite(c, 1, 0)
        elif not isinstance(c, int):
            raise TypeError("'%s' object cannot be interpreted as an integer" % type(c).__name__)
        elif not 0 <= c <= 255:
            raise ValueError("byte must be in range(0, 256)")
        cells.append(c)
    return SBytes(cells, mutable)


def _byte_range(I, v):
    if v.lo is not None and v.hi is not None and 0 <= v.lo and v.hi <= 255:
        return
    if not I.truth(V.band(V.compare(">=", v, 0), V.compare("<=", v, 255))):
        raise ValueError("byte must be in range(0, 256)")


def _len(I, a):
    a = I.ctx.resolve(a)
    if isinstance(a, SBytes):
        return len(a.cells)
    if isinstance(a, (SBuf, SZeros, SMBuf)):
        return I.ctx.resolve(a.n)
    if isinstance(a, SStr):
        return SInt(z3.Length(a.e), 0, None)
    if is_sym(a):
        raise TypeError("object of type '%s' has no len()" % type(a).__name__)
    return len(a)


def _sum(I, args):
    tot = args[1] if len(args) > 1 else 0
    for x in args[0]:
        tot = I.binop(__import__("ast").Add, tot, x)
    return tot


def _minmax(I, f, args, kwargs):
    if kwargs:
        raise Unsupported("min/max with key/default on symbolic data")
    xs = list(args[0]) if len(args) == 1 else list(args)
    r = xs[0]
    for x in xs[1:]:
        c = V.compare("<" if f is builtins.min else ">", x, r)
        r = V.ite(c, x, r)
    return r


def _int(I, args, kwargs):
    a = I.ctx.resolve(args[0]) if args else 0
    if isinstance(a, SInt):
        return a
    if isinstance(a, SBool):
        return V.ite(a, 1, 0)
    raise Unsupported("int() of %s" % type(a).__name__)


def _range(I, args):
    cs = [I.ctx.resolve(a) for a in args]
    if not any(isinstance(a, (SInt, SBool)) for a in cs):
        return range(*cs)
    start, stop, step = (0, cs[0], 1) if len(cs) == 1 else (cs[0], cs[1], 1) if len(cs) == 2 else cs
    if isinstance(step, (SInt, SBool)):
        step = I.ctx.concretize(step)
    if step < 1:
        return range(*[I.ctx.concretize(a) if isinstance(a, (SInt, SBool)) else a for a in (start, stop)], step)
    # a loop over range(<symbolic>): its length is checked against the iteration bound of the exploration (for the
    # termination contracts: 2 * len(buffer) + 8) BEFORE the first iteration -- a range whose length a device-supplied
    # value controls ends the path as `loopbound`
    count = V.range_count(start, stop, step)
    rb = getattr(I.ctx, "range_bound", None)
    bound = rb if rb is not None else I.ctx.loop_bound
    if bound is not None and I.truth(V.compare(">", count, bound)):
        raise V.LoopBound()
    if rb is not None:
        return V.SymRange(start, stop, step, count)  # unbounded contracts: the loop is summarised (for_hook)
    # within the bound: one path per value (the values are pinned, later uses of the same expressions are concrete)
    try:
        return range(*[I.ctx.concretize(a) if isinstance(a, (SInt, SBool)) else a for a in (start, stop)], step)
    except Unsupported:
        return V.SymRange(start, stop, step, count)  # too many values: iterated lazily, one decision per iteration


def _isinstance(I, obj, cls):
    cl = cls if isinstance(cls, tuple) else (cls,)
    if isinstance(obj, SInt):
        return any(c in (int, object) for c in cl)
    if isinstance(obj, SBool):
        return any(c in (bool, int, object) for c in cl)
    if isinstance(obj, (SBytes,)):
        return any(c in ((bytearray, object) if obj.mutable else (bytes, object)) for c in cl)
    if isinstance(obj, (SZeros, SMBuf)):
        return any(c in (bytearray, object) for c in cl)
    if isinstance(obj, SBuf):
        return any(c in (bytearray, bytes, object) for c in cl)
    if isinstance(obj, SStr):
        return any(c in (str, object) for c in cl)
    if isinstance(obj, SOpaque):
        if obj.tag.endswith("text"):
            return any(c in (str, object) for c in cl)
        raise Unsupported("isinstance of uninterpreted value")
    return isinstance(obj, cls)


def _type(I, obj):
    if isinstance(obj, SInt):
        return int
    if isinstance(obj, SBool):
        return bool
    if isinstance(obj, SBytes):
        return bytearray if obj.mutable else bytes
    if isinstance(obj, (SZeros, SBuf)):
        return bytearray
    if isinstance(obj, SStr):
        return str
    if isinstance(obj, SOpaque) and obj.tag.endswith("text"):
        return str
    if is_sym(obj):
        raise Unsupported("type() of %s" % type(obj).__name__)
    return type(obj)


def _text(I, tag, *args):
    return SOpaque(tag + "-text", *args)


def call(I, f, args, kwargs):
    args = [I.ctx.resolve(a) for a in args]
    # ---- constructors that must produce interpreter-level buffers even for concrete arguments
    if f is builtins.bytearray:
        return _mk_bytes(I, args, True)
    if f is builtins.bytes:
        if args and isinstance(args[0], str):
            return SBytes(list(bytes(*args, **kwargs)), False)
        return _mk_bytes(I, args, False)
    if f is builtins.len:
        return _len(I, args[0])
    if f is builtins.isinstance:
        return _isinstance(I, args[0], args[1])
    if f is builtins.type and len(args) == 1:
        return _type(I, args[0])
    if f is builtins.getattr:
        try:
            return I_frame_getattr(I, args[0], args[1])
        except AttributeError:
            if len(args) > 2:
                return args[2]
            raise
    if f is builtins.setattr:
        _frame(I).set_attr(args[0], args[1], args[2])
        return None
    if f is builtins.delattr:
        I.ctx.writes.append((args[0], "delattr", args[1]))
        return delattr(args[0], args[1])
    if f is builtins.hasattr:
        try:
            I_frame_getattr(I, args[0], args[1])
            return True
        except AttributeError:
            return False
    if f is builtins.next:
        it = args[0]
        if isinstance(it, list):  # eagerly evaluated generator expression
            if it:
                return it.pop(0)
            if len(args) > 1:
                return args[1]
            raise StopIteration
        return next(*args)
    if f is builtins.print:
        I.ctx.trace.append(("print", tuple(args)))
        return None
    if f is builtins.super:
        return super(*args)

    sym = contains_sym(args) or contains_sym(kwargs)
    selfobj = getattr(f, "__self__", None)
    if isinstance(selfobj, types.ModuleType):
        selfobj = None
    if getattr(f, "__pyvc_trusted__", False) or getattr(getattr(f, "__func__", None), "__pyvc_trusted__", False) \
            or getattr(type(selfobj), "__pyvc_trusted__", False) or getattr(f, "__module__", None) in I.trusted_modules:
        return f(*args, **kwargs)  # stub of an external binding / spec function: runs natively on symbolic values
    if not sym and not is_sym(selfobj):
        return f(*nativize(args), **nativize(kwargs))

    # ---- symbolic arguments: modelled built-ins only
    if isinstance(f, type) and issubclass(f, BaseException):
        return f(*args, **kwargs)  # exception objects only store their arguments
    if f is types.SimpleNamespace:
        return f(*args, **kwargs)  # a plain attribute holder
    if f is builtins.sum:
        return _sum(I, args)
    if f in (builtins.min, builtins.max):
        return _minmax(I, f, args, kwargs)
    if f is builtins.int:
        return _int(I, args, kwargs)
    if f is builtins.bool:
        return I.truth(args[0])
    if f is builtins.range:
        return _range(I, args)
    if f is builtins.reversed:
        return list(reversed(list(_frame(I).iterate(args[0]))))
    if f in (builtins.list, builtins.tuple):
        return f(_frame(I).iterate(args[0])) if args else f()
    if f is builtins.enumerate:
        return list(enumerate(_frame(I).iterate(args[0]), *args[1:]))
    if f is builtins.zip:
        return list(zip(*[_frame(I).iterate(a) for a in args]))
    if f is builtins.dict:
        return dict(*args, **kwargs)
    if f is builtins.set:
        if any(is_sym(x) for x in args[0]):
            raise Unsupported("set of symbolic values")
        return set(*args)
    if f is builtins.callable:
        return False if is_sym(args[0]) else callable(args[0])
    if f is builtins.id:
        return id(args[0])
    if f is builtins.abs:
        a = args[0]
        return V.ite(V.compare("<", a, 0), V.arith("-", 0, a), a)
    if f is builtins.divmod:
        import ast as _ast

        return (I.binop(_ast.FloorDiv, args[0], args[1]), I.binop(_ast.Mod, args[0], args[1]))
    if f in (builtins.hex, builtins.str, builtins.repr, builtins.format, builtins.chr, builtins.bin, builtins.oct):
        return _text(I, f.__name__, *args)
    if f is builtins.all:
        return V.band(*list(args[0])) if args[0] else True
    if f is builtins.any:
        return V.bor(*list(args[0])) if args[0] else False
    if f is builtins.vars or f is builtins.dir:
        return f(*args)

    # ---- methods of real containers that only store / fetch values
    if selfobj is not None and not is_sym(selfobj):
        name = getattr(f, "__name__", "")
        if isinstance(selfobj, dict):
            if name in ("update", "setdefault", "copy", "items", "values", "keys", "clear", "popitem"):
                return f(*args, **kwargs)
            if name in ("get", "pop", "__getitem__", "__contains__"):
                if is_sym(args[0]):
                    if isinstance(args[0], (SInt, SBool)) and name in ("get", "__getitem__"):
                        present = I.contains(selfobj, args[0])
                        if I.truth(present):
                            return _frame(I).sym_lookup(selfobj, args[0])
                        if name == "get":
                            return args[1] if len(args) > 1 else None
                        raise KeyError(args[0])
                    raise Unsupported("dict.%s with symbolic key" % name)
                return f(*args, **kwargs)
        if isinstance(selfobj, list):
            if name in ("append", "extend", "insert", "copy", "pop", "clear", "reverse"):
                if name == "extend":
                    return f(list(_frame(I).iterate(args[0])))
                return f(*args, **kwargs)
            if name in ("index", "count", "remove", "__contains__"):
                raise Unsupported("list.%s with symbolic values" % name)
        if isinstance(selfobj, (bytes, bytearray)):
            if name == "join":
                cells = []
                parts = list(args[0])
                for i, p in enumerate(parts):
                    if i:
                        cells.extend(selfobj)
                    cells.extend(list(p))
                return SBytes(cells, isinstance(selfobj, bytearray))
            if name in ("extend", "__iadd__"):
                raise Unsupported("native bytearray extended with symbolic cells")
        if isinstance(selfobj, str):
            if name in ("format", "join", "__mod__"):
                return _text(I, "str." + name, selfobj, *args)
        if isinstance(selfobj, set) and name in ("add",):
            raise Unsupported("set.add of symbolic value")
    raise Unsupported("native call %s with symbolic arguments" % getattr(f, "__qualname__", getattr(f, "__name__", repr(f))))


def nativize(x, depth=0):
    """concrete interpreter-level buffers become real bytes/bytearray before a native call"""
    if isinstance(x, SBytes):
        return x.concrete()
    if depth > 3:
        return x
    if isinstance(x, list) and any(isinstance(v, (SBytes, list, tuple, dict)) for v in x):
        return [nativize(v, depth + 1) for v in x]
    if isinstance(x, tuple) and any(isinstance(v, (SBytes, list, tuple, dict)) for v in x):
        return tuple(nativize(v, depth + 1) for v in x)
    if isinstance(x, dict) and any(isinstance(v, (SBytes, list, tuple, dict)) for v in x.values()):
        return {k: nativize(v, depth + 1) for k, v in x.items()}
    return x


def _frame(I):
    from .interp import Frame

    fr = getattr(I, "_util_frame", None)
    if fr is None:
        fr = Frame(I, call, {})
        I._util_frame = fr
    return fr


def I_frame_getattr(I, obj, name):
    return _frame(I).get_attr(obj, name)


# ---------------------------------------------------------------------------------------------------------
# attributes / methods of symbolic values


class _Method:
    """bound method of a symbolic value"""

    def __init__(self, fn, name):
        self.fn = fn
        self.__name__ = name

    def __call__(self, *a, **k):
        return self.fn(*a, **k)


def sym_attr(I, obj, name):
    if isinstance(obj, SBytes):
        return _sbytes_attr(I, obj, name)
    if isinstance(obj, (SBuf, SZeros)):
        if name == "hex":
            return _Method(lambda *a, **k: _text(I, "bytes.hex", obj), name)
        if name == "decode":
            return _Method(lambda *a, **k: _decode(I, obj), name)
        raise Unsupported("attribute %s of a symbolic-length buffer" % name)
    if isinstance(obj, SInt):
        if name == "to_bytes":
            def to_bytes(length=1, byteorder="big", signed=False):
                if signed or is_sym(length):
                    raise Unsupported("int.to_bytes signed / symbolic length")
                fits = V.band(V.compare(">=", obj, 0), V.compare("<", obj, 1 << (8 * length)))
                if not I.truth(fits):
                    raise OverflowError("int too big to convert")
                cells = V.be_bytes(obj, length)
                if byteorder == "little":
                    cells = cells[::-1]
                return SBytes(cells, False)

            return _Method(to_bytes, name)
        if name == "bit_length":
            raise Unsupported("bit_length of symbolic integer")
        raise AttributeError("'int' object has no attribute '%s'" % name)
    if isinstance(obj, SOpaque):
        if obj.tag.endswith("text"):
            if name in ("lower", "upper", "strip", "rstrip", "lstrip", "format", "join", "replace", "encode", "zfill", "ljust", "rjust", "title"):
                return _Method(lambda *a, **k: _text(I, "str." + name, obj, *a), name)
            if name == "split":
                return _Method(lambda *a, **k: SOpaque("split-text-list", obj, *a), name)
            if name in ("startswith", "endswith"):
                raise Unsupported("str.%s on text formatted from symbolic data" % name)
        return SOpaque("attr:%s.%s" % (obj.tag, name), obj)
    if isinstance(obj, SStr):
        if name == "startswith":
            return _Method(lambda p, *a: SBool(z3.PrefixOf(z3.StringVal(p), obj.e)) if not a and isinstance(p, str) else _unsup("startswith args"), name)
        if name == "endswith":
            return _Method(lambda p, *a: SBool(z3.SuffixOf(z3.StringVal(p), obj.e)) if not a and isinstance(p, str) else _unsup("endswith args"), name)
        raise Unsupported("str.%s on symbolic string" % name)
    raise Unsupported("attribute %s of %s" % (name, type(obj).__name__))


def _decode(I, obj):
    """bytes.decode on symbolic contents: either the bytes are valid in the codec (uninterpreted text) or
    UnicodeDecodeError is raised -- both outcomes are explored"""
    ok = SBool(z3.Bool(V.fresh_name("decodable")))
    if not I.truth(ok):
        raise UnicodeDecodeError("utf-8", b"", 0, 1, "invalid byte (symbolic contents)")
    return _text(I, "bytes.decode", obj)


def _unsup(msg):
    raise Unsupported(msg)


def _sbytes_attr(I, obj, name):
    if obj.is_concrete() and name not in ("append", "extend", "insert", "pop", "clear", "reverse", "remove", "copy"):
        real = obj.concrete()
        m = getattr(real, name)

        def conc(*a, **k):
            a = [x.concrete() if isinstance(x, SBytes) and x.is_concrete() else x for x in a]
            if contains_sym(a):
                raise Unsupported("bytes.%s with symbolic arguments" % name)
            r = m(*a, **k)
            if isinstance(r, (bytes, bytearray)):
                return SBytes(list(r), isinstance(r, bytearray))
            return r

        return _Method(conc, name)
    if name == "append":
        def append(v):
            I.ctx.writes.append((obj, "method:append", None))
            if isinstance(v, SInt):
                _byte_range(I, v)
            obj.cells.append(v)

        return _Method(append, name)
    if name == "extend":
        def extend(v):
            I.ctx.writes.append((obj, "method:extend", None))
            obj.cells.extend(list(v))

        return _Method(extend, name)
    if name == "copy":
        return _Method(lambda: SBytes(obj.cells, obj.mutable), name)
    if name == "hex":
        return _Method(lambda *a, **k: _text(I, "bytes.hex", obj), name)
    if name == "decode":
        return _Method(lambda *a, **k: _decode(I, obj), name)
    if name == "join":
        def join(parts):
            cells = []
            for i, p in enumerate(list(parts)):
                if i:
                    cells.extend(obj.cells)
                cells.extend(list(p))
            return SBytes(cells, obj.mutable)

        return _Method(join, name)
    raise Unsupported("bytes.%s on symbolic cells" % name)

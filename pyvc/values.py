# pyvc.values -- symbolic value classes shared by the interpreter, the spec functions and the
# contracts.  Spec/contract code is written once, in plain Python, and runs both on concrete
# ints (native replay, CPython cross-check) and on these classes (verification), because the
# classes overload the Python operators.  z3 is imported lazily so that the replay harness
# (which runs under the repository's own interpreter, without z3) can import spec/contracts.
import itertools

W = 256  # width of value-sorted symbolic integers (widest mask in the repository: 152 bits)
BV_MIN = -(1 << (W - 1))
BV_MAX = (1 << (W - 1)) - 1

_z3 = None


def z3():
    global _z3
    if _z3 is None:
        import z3 as _m

        _z3 = _m
    return _z3


class EngineSignal(BaseException):
    """never caught by interpreted `except` clauses"""


class Unsupported(EngineSignal):
    pass


class LoopBound(EngineSignal):
    """a loop exceeded the iteration bound of the exploration"""


class SymRange:
    """range(start, stop, step) with symbolic start / stop and a concrete positive step; `count` is its length"""

    def __init__(self, start, stop, step, count):
        self.start, self.stop, self.step, self.count = start, stop, step, count


class IntegerModel(Unsupported):
    """a no-wrap side condition of the 256-bit integer model could not be established"""


# the path context that decides symbolic branches; set by explore.run_path
CUR = None


def cur():
    if CUR is None:
        raise Unsupported("symbolic value used as a Python truth value outside a path context")
    return CUR


_fresh = itertools.count()


def fresh_name(tag):
    return "%s!%d" % (tag, next(_fresh))


class SBool:
    __slots__ = ("e",)

    def __init__(self, e):
        self.e = e

    def __bool__(self):
        return cur().decide(self.e)

    def __repr__(self):
        return "SBool(%s)" % (self.e,)

    def __and__(self, o):
        return band(self, o)

    __rand__ = __and__

    def __or__(self, o):
        return bor(self, o)

    __ror__ = __or__

    def __invert__(self):
        return bnot(self)


def is_sbool(x):
    return isinstance(x, SBool)


def bexpr(x):
    """z3 Bool of a python bool / SBool / SInt (truthiness)"""
    if isinstance(x, SBool):
        return x.e
    if isinstance(x, SInt):
        return x.e != 0
    return z3().BoolVal(bool(x))


def band(*xs):
    if all(not isinstance(x, (SBool, SInt)) for x in xs):
        return all(bool(x) for x in xs)
    if any((not isinstance(x, (SBool, SInt))) and not x for x in xs):
        return False
    return SBool(z3().And(*[bexpr(x) for x in xs if isinstance(x, (SBool, SInt))]))


def bor(*xs):
    if all(not isinstance(x, (SBool, SInt)) for x in xs):
        return any(bool(x) for x in xs)
    if any((not isinstance(x, (SBool, SInt))) and x for x in xs):
        return True
    return SBool(z3().Or(*[bexpr(x) for x in xs if isinstance(x, (SBool, SInt))]))


def bnot(x):
    if isinstance(x, (SBool, SInt)):
        return SBool(z3().Not(bexpr(x)))
    return not x


def implies(a, b):
    return bor(bnot(a), b)


def ite(c, a, b):
    """if-then-else on ints"""
    if not isinstance(c, (SBool, SInt)):
        return a if c else b
    x, y = _coerce_pair(a, b)
    la, ha = bounds(a)
    lb, hb = bounds(b)
    return SInt(z3().If(bexpr(c), x, y), min(la, lb), max(ha, hb))


class SInt:
    """symbolic integer; e is a z3 BitVec(W) read as a signed mathematical integer, or a z3 Int
    (sizes, offsets, indices).  [lo, hi] is a conservative interval (python ints)."""

    __slots__ = ("e", "lo", "hi")

    def __init__(self, e, lo, hi):
        self.e = e
        self.lo = lo
        self.hi = hi

    @property
    def is_bv(self):
        return z3().is_bv(self.e)

    def __repr__(self):
        return "SInt(%s)[%s..%s]" % (self.e, _short(self.lo), _short(self.hi))

    def __hash__(self):
        return id(self)

    def __bool__(self):
        return cur().decide(self.e != 0)

    def __index__(self):
        raise Unsupported("symbolic integer used where CPython needs a concrete index")

    # arithmetic
    def __add__(self, o):
        return arith("+", self, o)

    def __radd__(self, o):
        return arith("+", o, self)

    def __sub__(self, o):
        return arith("-", self, o)

    def __rsub__(self, o):
        return arith("-", o, self)

    def __mul__(self, o):
        return arith("*", self, o)

    def __rmul__(self, o):
        return arith("*", o, self)

    def __and__(self, o):
        return arith("&", self, o)

    def __rand__(self, o):
        return arith("&", o, self)

    def __or__(self, o):
        return arith("|", self, o)

    def __ror__(self, o):
        return arith("|", o, self)

    def __xor__(self, o):
        return arith("^", self, o)

    def __rxor__(self, o):
        return arith("^", o, self)

    def __lshift__(self, o):
        return arith("<<", self, o)

    def __rlshift__(self, o):
        return arith("<<", o, self)

    def __rshift__(self, o):
        return arith(">>", self, o)

    def __rrshift__(self, o):
        return arith(">>", o, self)

    def __floordiv__(self, o):
        return arith("//", self, o)

    def __mod__(self, o):
        return arith("%", self, o)

    def __neg__(self):
        return arith("-", 0, self)

    def __pos__(self):
        return self

    def __invert__(self):
        return arith("-", -1, self)

    # comparisons
    def __eq__(self, o):
        return compare("==", self, o)

    def __ne__(self, o):
        return compare("!=", self, o)

    def __lt__(self, o):
        return compare("<", self, o)

    def __le__(self, o):
        return compare("<=", self, o)

    def __gt__(self, o):
        return compare(">", self, o)

    def __ge__(self, o):
        return compare(">=", self, o)


def _short(n):
    if n is None:
        return "?"
    return hex(n) if abs(n) > 9999 else str(n)


def is_int(x):
    return isinstance(x, (int, SInt)) and not isinstance(x, SBool)


def bounds(x):
    if isinstance(x, SInt):
        return x.lo, x.hi
    if isinstance(x, SBool):
        return 0, 1
    x = int(x)
    return x, x


def bvconst(n):
    return z3().BitVecVal(n, W)


def to_bv(x):
    """z3 BV(W) of int / SInt"""
    Z = z3()
    if isinstance(x, SInt):
        if Z.is_bv(x.e):
            return x.e
        if x.lo is None or x.hi is None or x.lo < BV_MIN or x.hi > BV_MAX:
            raise IntegerModel("size-sorted integer without bounds converted to a value")
        return Z.Int2BV(x.e, W)
    if isinstance(x, SBool):
        return Z.If(x.e, bvconst(1), bvconst(0))
    if isinstance(x, (bool, int)):
        n = int(x)
        if n < BV_MIN or n > BV_MAX:
            raise IntegerModel("constant outside the 256-bit model: %d bits" % n.bit_length())
        return bvconst(n)
    raise Unsupported("integer expected, got %s" % type(x).__name__)


def to_intsort(x):
    """z3 Int of int / SInt"""
    Z = z3()
    if isinstance(x, SInt):
        if not Z.is_bv(x.e):
            return x.e
        if x.lo is None or x.lo < 0:
            # signed conversion
            if x.lo is None or x.hi is None:
                raise IntegerModel("unbounded value used as a size")
            k = max(x.hi.bit_length(), (-x.lo).bit_length()) + 1
            low = Z.Extract(k - 1, 0, x.e)
            return Z.BV2Int(low, True)
        k = max(1, x.hi.bit_length())
        if k >= W:
            return Z.BV2Int(x.e, False)
        return Z.BV2Int(Z.Extract(k - 1, 0, x.e), False)
    if isinstance(x, SBool):
        return Z.If(x.e, Z.IntVal(1), Z.IntVal(0))
    return Z.IntVal(int(x))


def _is_intsorted(x):
    return isinstance(x, SInt) and not z3().is_bv(x.e)


def _coerce_pair(a, b):
    """both as z3 terms of one sort: Int if either is size-sorted, else BV"""
    if _is_intsorted(a) or _is_intsorted(b):
        return to_intsort(a), to_intsort(b)
    return to_bv(a), to_bv(b)


def _chk(lo, hi, what):
    if lo < BV_MIN or hi > BV_MAX:
        raise IntegerModel("%s may leave the 256-bit integer model (bounds %d..%d bits)" % (what, lo.bit_length(), hi.bit_length()))


def _mask_hi(hi):
    return (1 << max(hi, 0).bit_length()) - 1


def arith(op, a, b):
    Z = z3()
    if isinstance(a, SBool):
        a = ite(a, 1, 0)
    if isinstance(b, SBool):
        b = ite(b, 1, 0)
    if not isinstance(a, SInt) and not isinstance(b, SInt):
        import operator

        return {
            "+": operator.add, "-": operator.sub, "*": operator.mul, "&": operator.and_, "|": operator.or_,
            "^": operator.xor, "<<": operator.lshift, ">>": operator.rshift, "//": operator.floordiv, "%": operator.mod,
        }[op](a, b)
    if not is_int(a) or not is_int(b):
        return NotImplemented
    # cheap identities keep terms small
    if not isinstance(b, SInt):
        if b == 0 and op in ("+", "-", "|", "^", "<<", ">>"):
            return a
        if b == 0 and op in ("*", "&"):
            return 0
        if b == 1 and op in ("*", "//"):
            return a
    if not isinstance(a, SInt):
        if a == 0 and op in ("+", "|", "^"):
            return b
        if a == 0 and op in ("*", "&", "<<", ">>"):
            return 0
        if a == 1 and op == "*":
            return b
    la, ha = bounds(a)
    lb, hb = bounds(b)
    intsort = _is_intsorted(a) or _is_intsorted(b)
    if intsort and op in ("+", "-", "*", "//", "%"):
        x, y = to_intsort(a), to_intsort(b)
        if op == "+":
            return SInt(x + y, _add(la, lb), _add(ha, hb))
        if op == "-":
            return SInt(x - y, _sub(la, hb), _sub(ha, lb))
        if op == "*":
            cs = [_mul(p, q) for p in (la, ha) for q in (lb, hb)]
            if any(c is None for c in cs):
                return SInt(x * y, None, None)
            return SInt(x * y, min(cs), max(cs))
        if isinstance(b, SInt) or b <= 0:
            raise Unsupported("division by a symbolic or non-positive value")
        if op == "//":
            return SInt(x / y, None if la is None else la // b, None if ha is None else ha // b)
        return SInt(x % y, 0, b - 1)
    x, y = to_bv(a), to_bv(b)
    if la is None or ha is None or lb is None or hb is None:
        raise IntegerModel("bit operation on an unbounded size")
    if op == "+":
        lo, hi = la + lb, ha + hb
        _chk(lo, hi, "+")
        return SInt(x + y, lo, hi)
    if op == "-":
        lo, hi = la - hb, ha - lb
        _chk(lo, hi, "-")
        return SInt(x - y, lo, hi)
    if op == "*":
        cs = [p * q for p in (la, ha) for q in (lb, hb)]
        lo, hi = min(cs), max(cs)
        _chk(lo, hi, "*")
        return SInt(x * y, lo, hi)
    if op == "&":
        if la >= 0 and lb >= 0:
            return SInt(x & y, 0, min(ha, hb))
        if lb >= 0:
            return SInt(x & y, 0, hb)
        if la >= 0:
            return SInt(x & y, 0, ha)
        return SInt(x & y, min(la, lb), max(ha, hb, 0))
    if op in ("|", "^"):
        f = (lambda p, q: p | q) if op == "|" else (lambda p, q: p ^ q)
        if la >= 0 and lb >= 0:
            return SInt(f(x, y), 0, max(_mask_hi(ha), _mask_hi(hb)))
        m = max(_mask_hi(ha), _mask_hi(hb), _mask_hi(-la), _mask_hi(-lb))
        return SInt(f(x, y), -m - 1, m)
    if op == "<<":
        if isinstance(b, SInt):
            raise Unsupported("shift by a symbolic amount")
        if b < 0:
            raise ValueError("negative shift count")
        lo, hi = la << b, ha << b
        _chk(lo, hi, "<<")
        return SInt(x << y, lo, hi)
    if op == ">>":
        if isinstance(b, SInt):
            raise Unsupported("shift by a symbolic amount")
        if b < 0:
            raise ValueError("negative shift count")
        return SInt(x >> y, la >> b, ha >> b)  # arithmetic shift == Python's floor semantics
    if op in ("//", "%"):
        if isinstance(b, SInt) or b <= 0:
            raise Unsupported("division by a symbolic or non-positive value")
        if la < 0:
            raise Unsupported("floor division of a possibly negative value")
        if op == "//":
            return SInt(Z.UDiv(x, y), la // b, ha // b)
        return SInt(Z.URem(x, y), 0, min(ha, b - 1))
    raise Unsupported("operator %s" % op)


def _add(p, q):
    return None if p is None or q is None else p + q


def _sub(p, q):
    return None if p is None or q is None else p - q


def _mul(p, q):
    return None if p is None or q is None else p * q


def compare(op, a, b):
    if isinstance(a, SBool):
        a = ite(a, 1, 0)
    if isinstance(b, SBool):
        b = ite(b, 1, 0)
    if not isinstance(a, SInt) and not isinstance(b, SInt):
        import operator

        return {"==": operator.eq, "!=": operator.ne, "<": operator.lt, "<=": operator.le, ">": operator.gt, ">=": operator.ge}[op](a, b)
    other = b if isinstance(a, SInt) else a
    if not isinstance(other, (int, SInt)):
        # an integer never equals a non-integer (None, str, bytes ...)
        if op == "==":
            return False
        if op == "!=":
            return True
        raise TypeError("'%s' not supported between symbolic int and %s" % (op, type(other).__name__))
    # interval shortcuts
    la, ha = bounds(a)
    lb, hb = bounds(b)
    if None not in (la, ha, lb, hb):
        if ha < lb:
            return {"==": False, "!=": True, "<": True, "<=": True, ">": False, ">=": False}[op]
        if la > hb:
            return {"==": False, "!=": True, "<": False, "<=": False, ">": True, ">=": True}[op]
    x, y = _coerce_pair(a, b)
    if op == "==":
        return SBool(x == y)
    if op == "!=":
        return SBool(x != y)
    if op == "<":
        return SBool(x < y)
    if op == "<=":
        return SBool(x <= y)
    if op == ">":
        return SBool(x > y)
    return SBool(x >= y)


def sym_bv(name, lo, hi):
    """fresh value-sorted symbolic integer constrained (by the caller's requires) to lo..hi"""
    return SInt(z3().BitVec(name, W), lo, hi)


def sym_size(name, lo, hi):
    return SInt(z3().Int(name), lo, hi)


def range_constraint(v):
    """z3 constraint lo <= v <= hi for a declared symbolic input"""
    Z = z3()
    if Z.is_bv(v.e):
        return Z.And(v.e >= bvconst(v.lo), v.e <= bvconst(v.hi))
    cs = []
    if v.lo is not None:
        cs.append(v.e >= v.lo)
    if v.hi is not None:
        cs.append(v.e <= v.hi)
    return Z.And(*cs) if cs else Z.BoolVal(True)


# --------------------------------------------------------------------------------------------
# byte buffers


class SBytes:
    """bytearray/bytes of concrete length; cells are int (0..255) or SInt"""

    __slots__ = ("cells", "mutable", "_initial_cells")

    def __init__(self, cells, mutable=True):
        self.cells = list(cells)
        self.mutable = mutable

    def __len__(self):
        return len(self.cells)

    def __iter__(self):
        return iter(self.cells)

    def __repr__(self):
        return "SBytes(%r)" % (self.cells,)

    def __getitem__(self, i):
        if isinstance(i, slice):
            return SBytes(self.cells[i], self.mutable)
        return self.cells[i]

    def __setitem__(self, i, v):
        if isinstance(i, slice):
            self.cells[i] = list(v.cells if isinstance(v, SBytes) else v)
        else:
            self.cells[i] = v

    def __add__(self, o):
        return SBytes(self.cells + list(o), self.mutable)

    def __radd__(self, o):
        return SBytes(list(o) + self.cells, isinstance(o, bytearray))

    def __iadd__(self, o):
        self.cells.extend(list(o))
        return self

    def __hash__(self):
        return id(self)

    def __eq__(self, o):
        return bytes_eq(self, o)

    def __ne__(self, o):
        return bnot(bytes_eq(self, o))

    def is_concrete(self):
        return all(not isinstance(c, SInt) for c in self.cells)

    def concrete(self):
        return bytearray(self.cells) if self.mutable else bytes(self.cells)


def is_buffer(x):
    return isinstance(x, (bytes, bytearray, SBytes, SBuf))


def bytes_eq(a, b):
    if isinstance(a, SBuf) or isinstance(b, SBuf):
        raise Unsupported("comparison of symbolic-length buffers")
    if not is_buffer(a) or not is_buffer(b):
        return False
    ca, cb = list(a), list(b)
    if len(ca) != len(cb):
        return False
    return band(*[compare("==", x, y) for x, y in zip(ca, cb)]) if ca else True


class SBuf:
    """immutable view (array Int -> BV8, offset, length) of symbolic length: arbitrary device data"""

    __slots__ = ("arr", "off", "n")

    def __init__(self, arr, off, n):
        self.arr = arr
        self.off = off  # int | SInt(Int-sorted)
        self.n = n  # int | SInt(Int-sorted)

    def __repr__(self):
        return "SBuf(off=%r, n=%r)" % (self.off, self.n)

    def __hash__(self):
        return id(self)


class SMBuf:
    """mutable buffer held as a z3 array (Int -> BV8) with length n (int | size-sorted SInt): lets stores and
    loads use symbolic indices (C10: the codec at an arbitrary byte offset)"""

    __slots__ = ("arr", "n", "arr0")

    def __init__(self, arr, n):
        self.arr = arr
        self.arr0 = arr  # contents at creation (for model extraction and `old(...)` in postconditions)
        self.n = n

    def __hash__(self):
        return id(self)

    def __repr__(self):
        return "SMBuf(n=%r)" % (self.n,)


class SZeros:
    """bytearray(n) for a symbolic n: a zero-filled buffer whose length is the term n (kept as given,
    so that `len(datain) == blocksize * tl` is a syntactic identity)."""

    __slots__ = ("n", "havoc")

    def __init__(self, n):
        self.n = n
        self.havoc = None  # set by a device stub: contents became arbitrary

    def __repr__(self):
        return "SZeros(%r)" % (self.n,)

    def __hash__(self):
        return id(self)


class SOpaque:
    """an uninterpreted value: result of a call replaced by its contract, a table look-up with a symbolic
    key, text formatted from symbolic data.  Carries a tag and the operands for trace/evidence."""

    __slots__ = ("tag", "args", "truth")

    def __init__(self, tag, *args):
        self.tag = tag
        self.args = args
        self.truth = None  # optionally: the truth value the contract gives this value (a bool / SBool input)

    def __repr__(self):
        return "SOpaque(%s)" % (self.tag,)

    def __hash__(self):
        return id(self)

    # native code that handles an uninterpreted value (e.g. the result of a decoder replaced by its contract, during
    # a native witness run): parts of it are uninterpreted too; its truth value / arithmetic are not available
    def __getitem__(self, idx):
        return SOpaque("item-of:" + self.tag, self, idx)

    def __bool__(self):
        if isinstance(self.truth, bool):
            return self.truth
        raise Unsupported("truth value of an uninterpreted value (%s)" % self.tag)

    def _no_arith(self, *a):
        raise Unsupported("arithmetic / comparison on an uninterpreted value (%s)" % self.tag)

    __add__ = __radd__ = __sub__ = __rsub__ = __mul__ = __rmul__ = __floordiv__ = __rfloordiv__ = __truediv__ = __rtruediv__ = _no_arith
    __mod__ = __rmod__ = __lshift__ = __rlshift__ = __rshift__ = __rrshift__ = __and__ = __rand__ = __or__ = __ror__ = __xor__ = __rxor__ = _no_arith
    __lt__ = __le__ = __gt__ = __ge__ = __neg__ = __index__ = __int__ = __len__ = _no_arith


class SStr:
    """symbolic string (z3 String), only used for device paths (C19)"""

    __slots__ = ("e",)

    def __init__(self, e):
        self.e = e

    def __hash__(self):
        return id(self)

    def __repr__(self):
        return "SStr(%s)" % (self.e,)


SYM_TYPES = (SInt, SBool, SBytes, SBuf, SMBuf, SZeros, SOpaque, SStr)


def range_count(start, stop, step):
    """len(range(start, stop, step)) for step >= 1 over symbolic integers"""
    d = arith("-", stop, start)
    return ite(compare(">", d, 0), arith("//", arith("+", d, step - 1), step), 0)


def is_sym(x):
    return isinstance(x, SYM_TYPES)


def contains_sym(x, depth=0):
    if isinstance(x, SBytes):
        return not x.is_concrete()
    if is_sym(x):
        return True
    if depth > 4:
        return False
    if isinstance(x, dict):
        return any(contains_sym(v, depth + 1) or contains_sym(k, depth + 1) for k, v in x.items())
    if isinstance(x, (list, tuple, set)):
        return any(contains_sym(v, depth + 1) for v in x)
    return False


# --------------------------------------------------------------------------------------------
# helpers for spec code (polymorphic over concrete and symbolic values)


def buf_len(b):
    if isinstance(b, SZeros):
        return b.n
    if isinstance(b, (SBuf, SMBuf)):
        return b.n
    return len(b)


def be_int(cells):
    """big-endian integer of a sequence of byte cells"""
    v = 0
    for c in cells:
        v = (v << 8) | c
    return v


def be_bytes(x, n):
    """big-endian n-byte encoding of x (x assumed in range)"""
    return [(x >> (8 * (n - 1 - i))) & 0xFF for i in range(n)]


def deep_eq(a, b, path=""):
    """structural equality of results that may contain symbolic leaves; yields (path, condition)"""
    if isinstance(a, dict) and isinstance(b, dict):
        ka, kb = list(a.keys()), list(b.keys())
        if set(ka) != set(kb):
            yield path + "/keys", False
            return
        yield path + "/keys", True
        for k in ka:
            yield from deep_eq(a[k], b[k], "%s/%s" % (path, k))
    elif isinstance(a, (list, tuple)) and isinstance(b, (list, tuple)):
        if len(a) != len(b):
            yield path + "/len", False
            return
        yield path + "/len", True
        for i, (x, y) in enumerate(zip(a, b)):
            yield from deep_eq(x, y, "%s[%d]" % (path, i))
    elif is_buffer(a) or is_buffer(b):
        yield path, bytes_eq(a, b)
    elif isinstance(a, (int, SInt, SBool)) and isinstance(b, (int, SInt, SBool)):
        yield path, compare("==", a, b)
    else:
        yield path, a == b

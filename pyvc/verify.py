# pyvc.verify -- the verification job for one (unit, case): enumerate paths of the real code over symbolic
# inputs, turn the contract's clauses into obligations, discharge them, extract and natively confirm models.
import json
import os
import random
import subprocess
import tempfile
import time
import traceback

import z3

from . import values as V
from .values import EngineSignal, Unsupported, SBool, SInt
from .explore import explore, PathLimit, LoopBound
from .interp import Interp
from .state import StateGuard
from .unit import REGISTRY, Args, SymExec, Outcome, Undecided, run_native, model_inputs, outcome_of_exception, ContractError

CVC5 = "/usr/bin/cvc5"


def _cvc5(smt2, timeout_s):
    if not os.path.exists(CVC5):
        return "unknown"
    with tempfile.NamedTemporaryFile("w", suffix=".smt2", delete=False, dir="/var/tmp") as f:
        f.write("(set-logic ALL)\n" + smt2.replace("ubv_to_int", "bv2nat").replace("bv2int", "bv2nat") + "\n")
        path = f.name
    try:
        p = subprocess.run([CVC5, "--strings-exp", "--tlimit=%d" % int(timeout_s * 1000), path],
                           capture_output=True, text=True, timeout=timeout_s + 5)
        out = p.stdout.strip().splitlines()
        return out[0] if out else "unknown"
    except Exception:
        return "unknown"
    finally:
        os.unlink(path)


_PRISTINE = None


def _small_prefs(syms):
    """soft preferences for counter-models and witnesses: small values for every declared integer input, so that
    native replays do not allocate gigabyte buffers for an allocation length of 2**32-1"""
    prefs = []
    for v in (syms or {}).values():
        if isinstance(v, SInt) and v.hi is not None and v.hi > (1 << 12) and v.is_bv:
            prefs.append(z3.And(v.e <= V.bvconst(1 << 12), v.e >= V.bvconst(-(1 << 12))))
        elif isinstance(v, (V.SBuf, V.SMBuf)) and isinstance(v.n, SInt):
            prefs.append(v.n.e <= 256)
        elif isinstance(v, V.SBytes):
            # leading bytes of a buffer are often length fields of a response: prefer zero, byte by byte
            for c in list(getattr(v, "_initial_cells", v.cells))[:12]:
                if isinstance(c, SInt):
                    prefs.append(c.e == V.bvconst(0))
    return prefs


def _nice_model(s, prefs):
    """model of solver s (already sat); retried with the soft preferences, greedily"""
    m = s.model()
    if not prefs:
        return m
    s.push()
    try:
        s.push()
        s.add(*prefs)
        ok = s.check() == z3.sat
        if ok:
            m = s.model()
        s.pop()
        if not ok:
            # not all at once: keep the preferences that can be added one after the other (bounded effort)
            s.set("timeout", 2000)
            kept = 0
            for p in prefs[:40]:
                s.push()
                s.add(p)
                if s.check() == z3.sat:
                    m = s.model()
                    kept += 1
                else:
                    s.pop()
            for _ in range(kept):
                s.pop()
    finally:
        s.pop()
    return m


def discharge(pc, cond, timeout_ms, want_model=True, both=False, prefs=None):
    """returns dict(verdict='proved'|'failed'|'unknown', backend, model, time)"""
    t0 = time.time()
    if isinstance(cond, (SBool, SInt)):
        e = z3.simplify(V.bexpr(cond))
    elif isinstance(cond, z3.BoolRef):
        e = z3.simplify(cond)
    else:
        e = None
        if cond:
            return dict(verdict="proved", backend="ground", model=None, time=0.0)
    if e is not None and z3.is_true(e):
        return dict(verdict="proved", backend="syntactic", model=None, time=time.time() - t0)
    s = z3.Solver()
    s.set("timeout", int(timeout_ms))
    for c in pc:
        s.add(c)
    if e is not None:
        s.add(z3.Not(e))
    r = s.check()
    backend = "z3" if e is not None else "ground"
    if r == z3.unknown:
        if os.environ.get("PYVC_DUMP_UNKNOWN"):
            with open(os.path.join(os.environ["PYVC_DUMP_UNKNOWN"], "q%d.smt2" % (abs(hash(s.to_smt2())) % 100000)), "w") as fh:
                fh.write(s.to_smt2())
        r2 = _cvc5(s.to_smt2(), timeout_ms / 1000.0)
        if r2 == "unsat":
            return dict(verdict="proved", backend="cvc5", model=None, time=time.time() - t0)
        # cvc5 could not prove it either (or claims sat, without a model we could replay): z3 once more with four
        # times the budget -- a busy machine must not turn a provable obligation into an alarm
        why = s.reason_unknown()
        s.set("timeout", int(timeout_ms) * 4)
        r = s.check()
        if r == z3.unsat:
            return dict(verdict="proved", backend="z3", model=None, time=time.time() - t0)
        if r == z3.sat:
            return dict(verdict="failed", backend="z3", model=_nice_model(s, prefs) if want_model else None, time=time.time() - t0)
        return dict(verdict="unknown", backend="z3+cvc5", model=None, time=time.time() - t0, note="%s; cvc5: %s" % (why, r2))
    if r == z3.unsat:
        if both:
            r2 = _cvc5(s.to_smt2(), timeout_ms / 1000.0)
            if r2 == "sat":
                return dict(verdict="disagree", backend="z3/cvc5", model=None, time=time.time() - t0)
            if r2 == "unsat":
                backend += "+cvc5"
        return dict(verdict="proved", backend=backend, model=None, time=time.time() - t0)
    return dict(verdict="failed", backend=backend, model=_nice_model(s, prefs) if want_model else None, time=time.time() - t0)


def _observe_kind(out):
    if out.kind == "return":
        return "return"
    return "raise:" + type(out.exc).__name__


def verify_case(unit_name, case, prop=None, tier="quick", opts=None):
    """Runs in a worker process.  Returns a JSON-able dict."""
    opts = opts or {}
    t_start = time.time()
    unit = REGISTRY[unit_name]
    res = dict(unit=unit_name, case=case, case_id=unit.case_id(case), prop=prop, status="ok", obligations=[],
               violations=[], undecided=[], paths=0, solver_time=0.0, path_solver_calls=0, canaries=0,
               canaries_refuted=0, witnesses_checked=0, functions=[], interpreted=[], notes=[], frame_diffs=[],
               level=unit.level, bound_note=unit.bound_note)
    timeout_ms = opts.get("timeout_ms", 10000 if tier == "quick" else 60000)
    try:
        res["functions"] = [_fname(f) for f in unit.functions()]
    except Exception as ex:
        res["notes"].append("functions(): %r" % (ex,))
    decls = unit.inputs(case)
    # every case starts from the library state as it was when this worker first looked at it (state that an earlier
    # case left behind -- possible only if the code under test keeps state between calls -- must not leak into this one)
    global _PRISTINE
    if _PRISTINE is None:
        _PRISTINE = StateGuard()
        _PRISTINE.snapshot()
    else:
        try:
            _PRISTINE.restore(_PRISTINE.diff())
        except Exception as ex:
            res["notes"].append("pristine state could not be restored: %r" % (ex,))
    guard = StateGuard()
    guard.snapshot()
    records = []
    interpreted = set()

    def fn(ctx):
        syms = {k: decls[k].make(k) for k in decls}
        for k in decls:
            for c in decls[k].constraints(syms[k]):
                ctx.assume(c)
        a = Args(syms)
        cfg = unit.interp_config(case)
        I = Interp(ctx, externals=cfg.get("externals"), contracts=cfg.get("contracts"), native=cfg.get("native"))
        I.trusted_modules |= set(cfg.get("trusted_modules", ()))
        if cfg.get("loop_hook"):
            I.loop_hook = cfg["loop_hook"]
        if cfg.get("for_hook"):
            I.for_hook = cfg["for_hook"]
        X = SymExec(I)
        diffs = None
        try:
            for r in unit.requires(case, a):
                ctx.assume(r)
            try:
                val = unit.run(X, case, a)
                out = Outcome("return", val)
            except LoopBound:
                out = Outcome("loopbound")
            except EngineSignal:
                raise
            except RecursionError:
                raise
            except BaseException as ex:
                out = outcome_of_exception(ex)
            clauses = []
            for p, n, c in unit.ensures(case, a, out, X):
                if prop is None or p == prop or p == "*":
                    clauses.append((p, n, c))
            ground_req = 0
            for n, c in ctx.obligations:
                if c is True:
                    ground_req += 1  # call-site preconditions that hold by ground evaluation: one summary clause
                else:
                    clauses.append(("*", n, SBool(c) if isinstance(c, z3.BoolRef) else c))
            if ground_req:
                clauses.append(("*", "requires:%d call-site preconditions of L0 contracts hold by ground evaluation" % ground_req, True))
            canaries = list(unit.canaries(case, a, out, X))
            canaries.append(("canary:false-under-the-path-condition (vacuity guard)", False))
            diffs = guard.diff(written=[w[0] for w in ctx.writes])
            if prop == "C09" and getattr(unit, "frame_check", False):
                clauses.extend(frame_clauses(unit, ctx, guard, diffs))
        finally:
            guard.restore(diffs)
            interpreted.update(I.calls)
        return dict(syms=syms, out=out, clauses=clauses, canaries=canaries, diffs=diffs)

    truncated = [] if getattr(unit, "truncate_ok", False) else None
    budget = getattr(unit, "explore_budget_s", None) or opts.get("explore_budget_s", 600 if tier == "quick" else 3000)
    if isinstance(budget, dict):
        budget = budget[tier]
    try:
        paths = explore(fn, max_paths=unit.max_paths, timeout_ms=timeout_ms, loop_bound=unit.loop_bound,
                        deadline=t_start + budget, truncate=truncated, concrete_loop_bound=getattr(unit, "concrete_loop_bound", None))
    except ContractError as ex:
        guard.restore()
        res["status"] = "error"
        res["notes"].append(str(ex))
        res["wall"] = time.time() - t_start
        return res
    except EngineSignal as ex:
        guard.restore()
        res["status"] = "undecided"
        res["undecided"].append(dict(name="%s[%s]" % (unit_name, res["case_id"]), reason="unsupported: %s" % (ex,),
                                     where=_where(ex)))
        _native_probe(unit, unit_name, case, prop, decls, res, opts, tier)
        res["wall"] = time.time() - t_start
        return res
    res["paths"] = len(paths)
    res["interpreted"] = sorted(interpreted)
    if truncated:
        res["notes"].append("bounded exploration truncated: %s[%s]: %s" % (unit_name, res["case_id"], truncated[0]))
        res["truncated"] = truncated[0]
    final = guard.diff()  # full comparison once per case: catches mutations made by native code
    for d in final:
        res["frame_diffs"].append(dict(path=-1, owner=d[0], attr=d[1], kind=d[2]))
    guard.restore(final)
    canary_passed = []
    vacuous_paths = []
    rng = random.Random(opts.get("seed", 0))
    n_wit = opts.get("witnesses", 4 if tier == "quick" else 32)
    for pi, (ctx, kind, val) in enumerate(paths):
        res["solver_time"] += ctx.solver_time
        res["path_solver_calls"] += ctx.solver_calls
        if kind != "return":
            # the job function itself raised (spec / contract code): checker error
            res["status"] = "error"
            res["notes"].append("contract code raised on path %d: %r" % (pi, val))
            res["notes"].append("".join(traceback.format_exception(type(val), val, val.__traceback__))[-1500:])
            continue
        rec = val
        out = rec["out"]
        for d in rec["diffs"]:
            res["frame_diffs"].append(dict(path=pi, owner=d[0], attr=d[1], kind=d[2]))
        all_proved = True
        for p, n, c in rec["clauses"]:
            name = "%s/%s[%s]/%s" % (p, unit_name, res["case_id"], n)
            if isinstance(c, Undecided):
                res["undecided"].append(dict(name=name, reason="contract: " + c.reason))
                res["obligations"].append(dict(name=name, prop=p, path=pi, verdict="unknown", backend="contract", time=0, outcome=out.describe()))
                all_proved = False
                continue
            d = discharge(ctx.pc, c, timeout_ms, both=opts.get("both", False), prefs=_small_prefs(rec["syms"]))
            res["solver_time"] += d["time"]
            ob = dict(name=name, prop=p, path=pi, verdict=d["verdict"], backend=d["backend"], time=round(d["time"], 4),
                      outcome=out.describe())
            if d["verdict"] == "failed":
                all_proved = False
                m = d["model"]
                if m is None and d["backend"] == "ground":
                    m = _any_model(ctx.pc, timeout_ms, _small_prefs(rec["syms"]))
                ob["inputs"] = _jsonable(model_inputs(decls, rec["syms"], m)) if m is not None else None
                ob["decisions"] = [_short(x) for x in ctx.decisions[:12]]
                res["violations"].append(ob)
            elif d["verdict"] in ("unknown", "disagree"):
                all_proved = False
                ob["reason"] = d.get("note", d["verdict"])
                res["undecided"].append(dict(name=name, reason="solver: %s" % ob["reason"]))
                if d["verdict"] == "disagree":
                    res["status"] = "error"
            res["obligations"].append(ob)
        for n, c in rec["canaries"]:
            res["canaries"] += 1
            d = discharge(ctx.pc, c, timeout_ms)
            if d["verdict"] == "failed":
                res["canaries_refuted"] += 1
            elif d["verdict"] == "proved":
                if n.startswith("canary:false-under-the-path-condition"):
                    # this path's condition is unsatisfiable (an infeasible branch that the feasibility check let
                    # through, e.g. on a solver time-out): whatever was proved on it is vacuous but harmless; it is
                    # an error only if EVERY path of the case is like that (contradictory preconditions)
                    vacuous_paths.append(pi)
                    res["canaries"] -= 1  # (not a canary that should have been refuted: the path does not exist)
                else:
                    canary_passed.append("CANARY PASSED: %s/%s on path %d" % (unit_name, n, pi))
        # witness: a concrete input of this path, run natively; outcome and clauses must agree
        if all_proved and (pi < n_wit or rng.random() < 0.05) and not opts.get("no_witness") and getattr(unit, "witness", True) and res.get("native_timeouts", 0) < 2:
            m = _any_model(ctx.pc, timeout_ms, _small_prefs(rec["syms"]))
            if m is not None:
                inp = _jsonable(model_inputs(decls, rec["syms"], m))
                try:
                    nout, nclauses, _ = run_native(unit, case, inp)
                except EngineSignal as ex:
                    nout = None
                    res["notes"].append("native witness not evaluable: %s" % (ex,))
                finally:
                    # a native run must not leave library state behind for the next one (each witness speaks about
                    # one call from the initial state; state carried between calls is the subject of other units)
                    guard.restore(guard.diff())
                if nout is not None and nout.kind == "raise" and isinstance(nout.exc, (MemoryError, RecursionError)):
                    res["notes"].append("native witness hit a resource limit of this machine (%s): not evaluated" % type(nout.exc).__name__)
                    nout = None
                if nout is not None:
                    res["witnesses_checked"] += 1
                    if nout.kind == "loopbound":
                        # the real code did not return within the time box: two such runs per case are enough
                        res["native_timeouts"] = res.get("native_timeouts", 0) + 1
                    # CPython is the ground truth: a clause that is false on the real code for these inputs is a
                    # violation whatever the symbolic verdict was (typically a callee that no longer satisfies the
                    # contract the modular proof used for it); it is replayed like any other counterexample
                    false_natively = [(p, n) for p, n, b in nclauses if (prop is None or p == prop) and not isinstance(b, Undecided) and not b]
                    for p, n in false_natively:
                        name = "%s/%s[%s]/%s" % (p, unit_name, res["case_id"], n)
                        res["violations"].append(dict(name=name, prop=p, path=pi, verdict="failed", backend="native-witness", inputs=inp,
                                                      outcome=nout.describe(), time=0))
                        res["obligations"].append(dict(name=name + " (native witness)", prop=p, path=pi, verdict="failed", backend="native-witness", time=0, outcome=nout.describe()))
                        res["notes"].append("clause %s proved on the modular / symbolic level but false on the real code, inputs=%s" % (n, json.dumps(inp)[:300]))
                    if _observe_kind(nout) != _observe_kind(out) and not false_natively:
                        res["status"] = "error"
                        res["notes"].append("CROSS-CHECK: interpreter says %s, CPython says %s for %s inputs=%s" % (
                            out.describe(), nout.describe(), unit_name, json.dumps(inp)[:400]))
    if vacuous_paths:
        res["notes"].append("%d of %d paths have an unsatisfiable path condition (vacuous)" % (len(vacuous_paths), len(paths)))
        if len(vacuous_paths) == len(paths):
            res["status"] = "error"
            res["notes"].append("CANARY PASSED: every path of %s[%s] is vacuous (contradictory preconditions?)" % (unit_name, res["case_id"]))
    if canary_passed:
        # a unit-specific canary is a clause that is false *if the contract holds*; when the same case reports
        # violations the premise is gone and the passing canary is only noted, otherwise the run is not trusted
        if res["violations"]:
            res["notes"].append("%d canaries passed on a case that reports violations (premise of the canary gone)" % len(canary_passed))
        else:
            res["status"] = "error"
            res["notes"].extend(canary_passed[:8])
    fin = getattr(unit, "finalize", None)
    if fin is not None:
        for p, n, c in fin(case, [v["out"] for (_, k, v) in paths if k == "return"], [k for (_, k, v) in paths]):
            if prop is None or p == prop:
                name = "%s/%s[%s]/%s" % (p, unit_name, res["case_id"], n)
                ok = bool(c)
                res["obligations"].append(dict(name=name, prop=p, path=-1, verdict="proved" if ok else "failed", backend="ground", time=0, outcome="aggregate"))
                if not ok:
                    res["violations"].append(dict(name=name, prop=p, path=-1, verdict="failed", backend="ground", inputs=None, outcome="aggregate"))
    if not paths:
        res["status"] = "error"
        res["notes"].append("no path explored (vacuous)")
    if not res["obligations"]:
        res["notes"].append("no obligations for this property in this case")
    res["wall"] = time.time() - t_start
    return res


def _shrink(unit, case, inp, p, n, alarm):
    """greedy shrinking of a native counterexample: every integer input is replaced by 0 / 1 / a small value as long
    as the same clause stays false (keeps replays fast and readable)"""
    import signal

    def still_fails(cand):
        old_handler = signal.signal(signal.SIGALRM, alarm)
        signal.setitimer(signal.ITIMER_REAL, 1.0)
        try:
            nout, ncl, _ = run_native(unit, case, cand)
            return nout is not None and any(pp == p and nn == n and not isinstance(b, Undecided) and not b for pp, nn, b in ncl)
        except BaseException:
            return False
        finally:
            signal.setitimer(signal.ITIMER_REAL, 0)
            signal.signal(signal.SIGALRM, old_handler)

    cur = dict(inp)
    budget = 40
    for k in sorted(cur):
        if isinstance(cur[k], bool) or not isinstance(cur[k], int) or cur[k] in (0, 1):
            continue
        for small in (0, 1, 2, cur[k] & 0xFF, cur[k] & 0xFFFF):
            if budget <= 0 or small == cur[k]:
                continue
            budget -= 1
            cand = dict(cur, **{k: small})
            if still_fails(cand):
                cur = cand
                break
    return cur


def _native_probe(unit, unit_name, case, prop, decls, res, opts, tier):
    """the symbolic execution of this case is not available (unsupported construct): the case stays undecided, but
    the contract is still evaluated natively on boundary and pseudo-random inputs to LOOK FOR a counterexample.  A
    clause that is false on the real code is a violation (it is replayed like any other); finding none proves
    nothing and is not counted."""
    from .unit import probe_inputs

    if not getattr(unit, "witness", True) or opts.get("no_probe"):
        return
    k = 24 if tier == "quick" else 200
    try:
        cands = probe_inputs(decls, random.Random(opts.get("seed", 0) * 7919 + 17), k)
    except EngineSignal:
        return
    seen = set()
    tried = 0
    import signal

    class _ProbeTimeout(EngineSignal):  # (an EngineSignal: run_native passes it through instead of recording it as an outcome)
        pass

    def _alarm(signum, frame):
        raise _ProbeTimeout()

    t_probe = time.time()
    timeouts = 0
    for inp in cands:
        if time.time() - t_probe > (6 if tier == "quick" else 60) or timeouts >= 2:
            break
        old_handler = signal.signal(signal.SIGALRM, _alarm)
        signal.setitimer(signal.ITIMER_REAL, 1.5)
        try:
            nout, nclauses, _ = run_native(unit, case, inp)
        except (_ProbeTimeout, MemoryError):
            timeouts += 1  # e.g. a transfer of gigabytes: this input is not evaluable here
            continue
        except EngineSignal:
            return
        except BaseException as ex:  # contract code failing natively on odd inputs: not evidence of anything
            res["notes"].append("native probe: contract code raised %r" % (ex,))
            return
        finally:
            signal.setitimer(signal.ITIMER_REAL, 0)
            signal.signal(signal.SIGALRM, old_handler)
        if nout is None:
            continue  # precondition not met
        if nout.kind == "raise" and isinstance(nout.exc, (MemoryError, OverflowError, RecursionError)):
            continue  # resource limits of this machine, not behaviour of the library
        tried += 1
        for p, n, b in nclauses:
            if (prop is None or p == prop) and not isinstance(b, Undecided) and not b and n not in seen:
                seen.add(n)
                inp = _shrink(unit, case, inp, p, n, _alarm)
                name = "%s/%s[%s]/%s" % (p, unit_name, res["case_id"], n)
                res["violations"].append(dict(name=name, prop=p, path=-1, verdict="failed", backend="native-probe", inputs=_jsonable(inp),
                                              outcome=nout.describe(), time=0))
                res["obligations"].append(dict(name=name, prop=p, path=-1, verdict="failed", backend="native-probe", time=0, outcome=nout.describe()))
    res["notes"].append("native probe after unsupported construct: %d inputs tried, %d clauses refuted" % (tried, len(seen)))


def frame_clauses(unit, ctx, guard, diffs):
    """C09 write frame of one path: every store the interpreter performed went to an object created during the
    call (or to an object the contract declares as owned by the caller and writable), never to a class, a module,
    a layout table or another pre-existing object; and the net effect on the package state is empty."""
    import types

    shared, caller = [], []
    owned = {id(o) for o in getattr(unit, "caller_objects", [])}
    allowed = {id(o) for o in getattr(unit, "caller_writable", [])}
    for obj, kind, key in ctx.writes:
        if isinstance(obj, (type, types.ModuleType)):
            shared.append("%s %s.%s" % (kind, getattr(obj, "__name__", obj), key))
        elif id(obj) in guard.nested:
            oi, attr = guard.nested[id(obj)]
            shared.append("%s into %s.%s" % (kind, guard.snap[oi][1], attr))
        elif isinstance(obj, dict) and obj is getattr(types.ModuleType, "__dict__", None):
            shared.append("module dict")
        elif id(obj) in owned and id(obj) not in allowed:
            caller.append("%s of caller's %s" % (kind, type(obj).__name__))
    yield "C09", "frame:no-write-to-class-module-or-layout-table%s" % (" (" + "; ".join(sorted(set(shared))[:4]) + ")" if shared else ""), not shared
    yield "C09", "frame:no-write-to-callers-arguments%s" % (" (" + "; ".join(sorted(set(caller))[:4]) + ")" if caller else ""), not caller
    yield "C09", "frame:net-effect-on-package-state-is-empty%s" % (" (" + "; ".join("%s.%s %s" % d for d in diffs[:4]) + ")" if diffs else ""), not diffs


def _any_model(pc, timeout_ms, prefs=None):
    s = z3.Solver()
    s.set("timeout", int(timeout_ms))
    for c in pc:
        s.add(c)
    if s.check() == z3.sat:
        return _nice_model(s, prefs)
    return None


def _short(e):
    try:
        if e.num_args() > 6 or any(c.num_args() > 6 for c in e.children()):
            return "<%s with %d operands>" % (e.decl().name(), e.num_args())
        return str(e)[:200]
    except Exception:
        return "?"


def _jsonable(x):
    if isinstance(x, dict):
        return {k: _jsonable(v) for k, v in x.items()}
    if isinstance(x, (list, tuple)):
        return [_jsonable(v) for v in x]
    if isinstance(x, (bytes, bytearray)):
        return list(x)
    return x


def _fname(f):
    try:
        code = f.__code__
        fn = code.co_filename
        return "%s.%s (%s:%d)" % (f.__module__, f.__qualname__, fn, code.co_firstlineno)
    except AttributeError:
        return repr(f)


def _where(ex):
    tb = traceback.extract_tb(ex.__traceback__)
    return " <- ".join("%s:%d" % (os.path.basename(f.filename), f.lineno) for f in tb[-4:])

# pyvc.interp -- AST-walking interpreter for the real pyscsi source.
#
# Concrete operands are evaluated by CPython itself; symbolic operands (pyvc.values) are carried through
# the operators they overload.  Functions whose module lies inside `scope` are interpreted from the source
# of the live function object (inspect.getsource on every run, nothing cached on disk); everything else is
# called natively when its arguments are concrete, or through a small model (pyvc.builtins_model).
import ast
import builtins
import inspect
import operator
import textwrap
import types
import time
import functools

import z3

from . import values as V
from .values import (EngineSignal, Unsupported, SInt, SBool, SBytes, SBuf, SMBuf, SZeros, SOpaque, SStr, is_sym, contains_sym)
from .explore import LoopBound


_NOVAL = object()


class _Return(EngineSignal):
    def __init__(self, v):
        self.v = v


class _Break(EngineSignal):
    pass


class _Continue(EngineSignal):
    pass


_AST_CACHE = {}


def func_ast(f):
    """AST of the live function object's source (cached per process run only)"""
    code = f.__code__
    key = (code.co_filename, code.co_firstlineno, code.co_name)
    if key not in _AST_CACHE:
        try:
            src = textwrap.dedent(inspect.getsource(f))
        except (OSError, TypeError) as ex:
            raise Unsupported("no source for %r: %s" % (f, ex))
        tree = ast.parse(src)
        node = tree.body[0]
        if not isinstance(node, (ast.FunctionDef,)):
            raise Unsupported("source of %r is not a plain function definition" % (f,))
        has_yield = any(isinstance(n, (ast.Yield, ast.YieldFrom)) for n in ast.walk(node))
        _AST_CACHE[key] = (node, has_yield)
    return _AST_CACHE[key]


BINOPS = {
    ast.Add: "+", ast.Sub: "-", ast.Mult: "*", ast.BitAnd: "&", ast.BitOr: "|", ast.BitXor: "^",
    ast.LShift: "<<", ast.RShift: ">>", ast.FloorDiv: "//", ast.Mod: "%",
}
NATIVE_BINOPS = {
    ast.Add: operator.add, ast.Sub: operator.sub, ast.Mult: operator.mul, ast.BitAnd: operator.and_,
    ast.BitOr: operator.or_, ast.BitXor: operator.xor, ast.LShift: operator.lshift, ast.RShift: operator.rshift,
    ast.FloorDiv: operator.floordiv, ast.Mod: operator.mod, ast.Div: operator.truediv, ast.Pow: operator.pow,
    ast.MatMult: operator.matmul,
}
CMPS = {ast.Eq: "==", ast.NotEq: "!=", ast.Lt: "<", ast.LtE: "<=", ast.Gt: ">", ast.GtE: ">="}
NATIVE_CMPS = {ast.Eq: operator.eq, ast.NotEq: operator.ne, ast.Lt: operator.lt, ast.LtE: operator.le,
               ast.Gt: operator.gt, ast.GtE: operator.ge}

MUTATORS = {"update", "append", "extend", "pop", "clear", "insert", "remove", "setdefault", "popitem", "add",
            "discard", "sort", "reverse", "__setitem__", "__delitem__"}


class Interp:
    def __init__(self, ctx, scope=("pyscsi",), externals=None, contracts=None, native=None, max_depth=60):
        self.ctx = ctx
        self.scope = tuple(scope)
        self.externals = externals or {}  # function object / name -> handler(interp, *args, **kwargs)
        self.contracts = contracts or {}  # function object -> handler (callee replaced by its contract)
        self.native = native or set()  # in-scope function objects that may run natively on concrete args
        # modules of stubs / spec functions that run natively on symbolic values
        self.trusted_modules = {"spec.stubs.sgio", "spec.stubs.iscsi", "spec.stubs.world"}
        self.depth = 0
        self.max_depth = max_depth
        self.calls = []  # qualified names of interpreted functions (evidence)

    # ---------------------------------------------------------------- helpers
    def truth(self, v):
        if isinstance(v, SBool):
            return self.ctx.decide(v.e)
        if isinstance(v, SInt):
            v = self.ctx.resolve(v)
            if not isinstance(v, SInt):
                return bool(v)
            return self.ctx.decide(v.e != 0)
        if isinstance(v, SBytes):
            return len(v.cells) > 0
        if isinstance(v, (SBuf, SZeros, SMBuf)):
            n = self.ctx.resolve(v.n)
            if isinstance(n, SInt):
                return self.ctx.decide(n.e != 0)
            return n != 0
        if isinstance(v, SStr):
            return self.ctx.decide(z3.Length(v.e) != 0)
        if isinstance(v, SOpaque) and v.truth is not None:
            return self.truth(v.truth)
        if isinstance(v, SOpaque):
            # nothing is known about an uninterpreted value: both truth values are explored (an over-approximation;
            # a counterexample that depends on the wrong one does not replay natively and is not reported)
            memo = self.ctx.__dict__.setdefault("_opaque_truth", {})
            if id(v) not in memo:
                from .values import fresh_name

                memo[id(v)] = (v, z3.Bool(fresh_name("truth-of-" + str(v.tag)[:40])))
            return self.ctx.decide(memo[id(v)][1])
        return bool(v)

    def in_scope_module(self, modname):
        return isinstance(modname, str) and any(modname == s or modname.startswith(s + ".") for s in self.scope)

    def in_scope(self, f):
        return isinstance(f, types.FunctionType) and self.in_scope_module(f.__module__)

    # ---------------------------------------------------------------- calls
    def call(self, f, args, kwargs):
        args = list(args)
        h = self._lookup(self.externals, f)
        if h is not None:
            return h(self, *args, **kwargs)
        if isinstance(f, types.MethodType):
            h = self._lookup(self.externals, f.__func__) or self._lookup(self.contracts, f.__func__)
            if h is not None:
                return h(self, f.__self__, *args, **kwargs)
            if self.in_scope(f.__func__):
                return self.run_function(f.__func__, [f.__self__] + args, kwargs)
            return self.builtin(f, args, kwargs)
        h = self._lookup(self.contracts, f)
        if h is not None:
            return h(self, *args, **kwargs)
        if isinstance(f, type):
            return self.instantiate(f, args, kwargs)
        if self.in_scope(f):
            return self.run_function(f, args, kwargs)
        if isinstance(f, functools._lru_cache_wrapper) and self.in_scope(getattr(f, "__wrapped__", None)):
            return self.call_memoised(f, args, kwargs)
        if isinstance(f, (SOpaque,)):
            raise Unsupported("call of an uninterpreted value")
        return self.builtin(f, args, kwargs)

    def call_memoised(self, f, args, kwargs):
        """functools.lru_cache / functools.cache around a function of the package: the wrapped function is interpreted,
        and the cache is modelled -- a later call with equal arguments returns the very object stored by the earlier
        one (eviction and typed=True are not modelled; the cache is empty at the start of a case)"""
        memo = self.ctx.__dict__.setdefault("_memo", {}).setdefault(id(f), [])
        for pargs, pkw, res in memo:
            if len(pargs) != len(args) or sorted(pkw) != sorted(kwargs):
                continue
            same = True
            for x, y in list(zip(pargs, args)) + [(pkw[k], kwargs[k]) for k in pkw]:
                if x is y:
                    continue
                if is_sym(x) or is_sym(y):
                    if isinstance(x, (SInt, SBool, int, bool)) and isinstance(y, (SInt, SBool, int, bool)):
                        same = same and self.truth(x == y)
                    else:
                        raise Unsupported("memoised call keyed on a symbolic non-integer argument")
                else:
                    same = same and x == y
                if not same:
                    break
            if same:
                return res
        res = self.run_function(f.__wrapped__, args, kwargs)
        memo.append((list(args), dict(kwargs), res))
        self.ctx.writes.append((f, "memoised-result", None))
        return res

    @staticmethod
    def _lookup(table, f):
        if not table:
            return None
        try:
            return table.get(f)
        except TypeError:
            return None

    def instantiate(self, cls, args, kwargs):
        if not self.in_scope_module(getattr(cls, "__module__", None)) or issubclass(cls, type):
            return self.builtin(cls, args, kwargs)
        new = inspect.getattr_static(cls, "__new__", None)
        if isinstance(new, staticmethod):
            new = new.__func__
        if isinstance(new, types.FunctionType):
            if contains_sym(args) or contains_sym(kwargs):
                raise Unsupported("custom __new__ of %s with symbolic arguments" % cls.__name__)
            return cls(*args, **kwargs)
        if issubclass(cls, BaseException):
            obj = cls.__new__(cls, *args, **kwargs)
        else:
            obj = object.__new__(cls)
        init = None
        for k in cls.__mro__:
            if "__init__" in k.__dict__:
                init = k.__dict__["__init__"]
                break
        if isinstance(init, types.FunctionType) and self.in_scope(init):
            h = self._lookup(self.contracts, init) or self._lookup(self.externals, init)
            if h is not None:
                h(self, obj, *args, **kwargs)
            else:
                self.run_function(init, [obj] + args, kwargs)
        elif init is not None and init is not object.__init__:
            if issubclass(cls, BaseException):
                pass  # BaseException.__init__ only stores args (already done by __new__)
            else:
                init(obj, *args, **kwargs)
        elif args or kwargs:
            raise TypeError("%s() takes no arguments" % cls.__name__)
        return obj

    def run_function(self, f, args, kwargs):
        if f in self.native and not contains_sym(args) and not contains_sym(kwargs):
            return f(*args, **kwargs)
        node, has_yield = func_ast(f)
        if has_yield and not (contains_sym(args) or contains_sym(kwargs)):
            return f(*args, **kwargs)
        try:
            ba = inspect.signature(f).bind(*args, **kwargs)
        except TypeError as ex:
            raise TypeError("%s() %s" % (f.__qualname__, ex)) from None
        ba.apply_defaults()
        env = dict(ba.arguments)
        self.depth += 1
        if self.depth > self.max_depth:
            raise Unsupported("interpreter call depth exceeded")
        self.calls.append(f.__module__ + "." + f.__qualname__)
        frame = Frame(self, f, env)
        if has_yield:
            # a generator function on symbolic arguments is evaluated eagerly: the yielded values are collected (its
            # body must not depend on what the consumer does between two items -- an assumption of this interpreter,
            # as for generator expressions); an endless generator runs into the loop bounds
            frame.yielded = []
        try:
            frame.exec_block(node.body)
        except _Return as r:
            if has_yield:
                return iter(_GenResult(frame.yielded))
            return r.v
        finally:
            self.depth -= 1
        if has_yield:
            return iter(_GenResult(frame.yielded))
        return None

    def builtin(self, f, args, kwargs):
        from . import builtins_model

        return builtins_model.call(self, f, args, kwargs)

    # ---------------------------------------------------------------- operators
    def binop(self, op, a, b):
        a = self.ctx.resolve(a)
        b = self.ctx.resolve(b)
        if not is_sym(a) and not is_sym(b):
            if op is ast.Mod and isinstance(a, (str, bytes)) and contains_sym(b):
                return SOpaque("formatted-text", a, b)
            return NATIVE_BINOPS[op](a, b)
        if isinstance(a, SOpaque) or isinstance(b, SOpaque):
            if op is ast.Mod and isinstance(a, (str, bytes)):
                return SOpaque("formatted-text", a, b)
            if op is ast.Add and (isinstance(a, str) or isinstance(b, str) or
                                  (isinstance(a, SOpaque) and a.tag.endswith("text")) or (isinstance(b, SOpaque) and b.tag.endswith("text"))):
                return SOpaque("formatted-text", a, b)
            raise Unsupported("operator on an uninterpreted value")
        if op is ast.Mod and isinstance(a, (str, bytes)):
            return SOpaque("formatted-text", a, b)
        if isinstance(a, (SBytes, bytes, bytearray)) or isinstance(b, (SBytes, bytes, bytearray)):
            if op is ast.Add and V.is_buffer(a) and V.is_buffer(b) and not isinstance(a, SBuf) and not isinstance(b, SBuf):
                mutable = a.mutable if isinstance(a, SBytes) else isinstance(a, bytearray)
                return SBytes(list(a) + list(b), mutable)
            if op is ast.Mult and isinstance(a, (bytes, bytearray, SBytes)) and isinstance(b, int):
                return SBytes(list(a) * b, a.mutable if isinstance(a, SBytes) else isinstance(a, bytearray))
            raise Unsupported("operator %s on buffers" % op.__name__)
        if isinstance(a, SStr) or isinstance(b, SStr):
            if op is ast.Add:
                return SStr(z3.Concat(_zstr(a), _zstr(b)))
            raise Unsupported("operator on symbolic string")
        if op not in BINOPS:
            raise Unsupported("operator %s on symbolic integers" % op.__name__)
        if op in (ast.LShift, ast.RShift) and isinstance(b, SInt):
            # a symbolic shift amount: usually determined by values the path has already pinned (a byte count); split
            # over its (small) domain otherwise
            b = self.ctx.concretize(b, limit=40)
        r = V.arith(BINOPS[op], a, b)
        if r is NotImplemented:
            raise TypeError("unsupported operand types for %s: %s and %s" % (BINOPS[op], type(a).__name__, type(b).__name__))
        return r

    def compare(self, op, a, b):
        a = self.ctx.resolve(a)
        b = self.ctx.resolve(b)
        if op is ast.Is:
            return a is b
        if op is ast.IsNot:
            return a is not b
        if op in (ast.In, ast.NotIn):
            r = self.contains(b, a)
            return r if op is ast.In else V.bnot(r)
        if not is_sym(a) and not is_sym(b):
            return NATIVE_CMPS[op](a, b)
        if isinstance(a, SStr) or isinstance(b, SStr):
            if (isinstance(a, (str, SStr)) and isinstance(b, (str, SStr))) and op in (ast.Eq, ast.NotEq):
                e = _zstr(a) == _zstr(b)
                return SBool(e if op is ast.Eq else z3.Not(e))
            if op is ast.Eq:
                return False
            if op is ast.NotEq:
                return True
            raise Unsupported("ordering of symbolic strings")
        if isinstance(a, (SBytes, SBuf, SZeros)) or isinstance(b, (SBytes, SBuf, SZeros)):
            if op is ast.Eq:
                return V.bytes_eq(a, b)
            if op is ast.NotEq:
                return V.bnot(V.bytes_eq(a, b))
            raise Unsupported("ordering of buffers")
        if isinstance(a, SOpaque) or isinstance(b, SOpaque):
            raise Unsupported("comparison of an uninterpreted value")
        return V.compare(CMPS[op], a, b)

    def contains(self, container, item):
        if isinstance(container, (SBuf, SZeros, SOpaque)):
            raise Unsupported("membership test on symbolic container")
        if isinstance(container, SStr) or isinstance(item, SStr):
            if isinstance(container, (str, SStr)) and isinstance(item, (str, SStr)):
                return SBool(z3.Contains(_zstr(container), _zstr(item)))
            if isinstance(item, SStr) and isinstance(container, (dict, list, tuple, set, frozenset)):
                ks = [k for k in container if isinstance(k, str)]
                return V.bor(*[SBool(item.e == z3.StringVal(k)) for k in ks]) if ks else False
            raise Unsupported("membership with symbolic string")
        if isinstance(item, (SInt, SBool)):
            if isinstance(container, range) and container.step == 1:
                return V.band(V.compare(">=", item, container.start), V.compare("<", item, container.stop)) if len(container) else False
            if isinstance(container, (dict, set, frozenset)) and len(container) > 16 and isinstance(item, SInt) and item.is_bv:
                return _member_big(container, item)
            if isinstance(container, (dict, set, frozenset, list, tuple, range, SBytes)):
                ks = [k for k in container if isinstance(k, (int, SInt)) and not isinstance(k, SBool)]
                if not ks:
                    return False
                return V.bor(*[V.compare("==", item, k) for k in ks])
            raise Unsupported("membership of a symbolic integer in %s" % type(container).__name__)
        if isinstance(container, SBytes):
            return V.bor(*[V.compare("==", item, c) for c in container.cells]) if container.cells else False
        if isinstance(container, (list, tuple)) and any(isinstance(c, (SInt, SBool)) for c in container):
            return V.bor(*[V.compare("==", item, c) if isinstance(c, (int, SInt)) else (item == c) for c in container])
        return item in container


_MEMBER_CACHE = {}


def _member_big(container, item):
    """membership of a symbolic integer in a large concrete container of ints: a disjunction over a bit-vector
    narrowed to the item's interval, cached per (container, term)"""
    ks = tuple(sorted(k for k in container if isinstance(k, int) and not isinstance(k, bool)))
    key = (id(container), item.e.get_id())
    ent = _MEMBER_CACHE.get(key)
    if ent is not None and ent[0] == ks:
        return ent[2]
    w = V.W
    if item.lo is not None and item.hi is not None and item.lo >= 0 and item.hi < (1 << 64):
        w = max(1, item.hi.bit_length())
    en = z3.Extract(w - 1, 0, item.e) if w < V.W else item.e
    cond = z3.Or([en == z3.BitVecVal(k, w) for k in ks if 0 <= k < (1 << w)] or [z3.BoolVal(False)])
    r = SBool(cond)
    _MEMBER_CACHE[key] = (ks, item.e, r, container)
    return r


def _zstr(x):
    if isinstance(x, SStr):
        return x.e
    if isinstance(x, str):
        return z3.StringVal(x)
    raise Unsupported("string expected")


class Frame:
    def __init__(self, interp, func, env):
        self.I = interp
        self.f = func
        self.env = env
        self.glob = func.__globals__

    # ------------------------------------------------------------ statements
    def exec_block(self, stmts):
        for s in stmts:
            self.exec(s)

    def exec(self, s):
        m = getattr(self, "s_" + type(s).__name__, None)
        if m is None:
            raise Unsupported("statement %s" % type(s).__name__)
        m(s)

    def s_Expr(self, s):
        if isinstance(s.value, ast.Constant):
            return  # docstring
        self.ev(s.value)

    def s_Pass(self, s):
        pass

    def s_Nonlocal(self, s):
        raise Unsupported("nonlocal")

    def s_Match(self, s):
        """structural pattern matching (value, singleton, or, capture / wildcard, sequence, mapping patterns)"""
        subject = self.ev(s.subject)
        for case in s.cases:
            binds = {}
            if self._match(case.pattern, subject, binds):
                saved = {k: self.env.get(k, _NOVAL) for k in binds}
                self.env.update(binds)
                if case.guard is None or self.I.truth(self.ev(case.guard)):
                    self.exec_block(case.body)
                    return
                for k, v in saved.items():  # a failed guard leaves the names bound in CPython too; harmless either way
                    if v is _NOVAL:
                        self.env.pop(k, None)
                    else:
                        self.env[k] = v

    def _match(self, pat, subject, binds):
        if isinstance(pat, ast.MatchValue):
            return self.I.truth(self.I.compare(ast.Eq, subject, self.ev(pat.value)))
        if isinstance(pat, ast.MatchSingleton):
            return subject is pat.value
        if isinstance(pat, ast.MatchOr):
            for p in pat.patterns:
                b = {}
                if self._match(p, subject, b):
                    binds.update(b)
                    return True
            return False
        if isinstance(pat, ast.MatchAs):
            if pat.pattern is not None and not self._match(pat.pattern, subject, binds):
                return False
            if pat.name is not None:
                binds[pat.name] = subject
            return True
        if isinstance(pat, ast.MatchSequence):
            if isinstance(subject, (str, bytes, bytearray, SBytes, SBuf, SMBuf, SZeros, dict)) or is_sym(subject) or not isinstance(subject, (list, tuple)):
                if isinstance(subject, (list, tuple)):
                    pass
                else:
                    return False
            items = list(subject)
            star = [i for i, p in enumerate(pat.patterns) if isinstance(p, ast.MatchStar)]
            if not star:
                if len(items) != len(pat.patterns):
                    return False
                return all(self._match(p, x, binds) for p, x in zip(pat.patterns, items))
            k = star[0]
            after = len(pat.patterns) - k - 1
            if len(items) < k + after:
                return False
            if not all(self._match(p, x, binds) for p, x in zip(pat.patterns[:k], items[:k])):
                return False
            if after and not all(self._match(p, x, binds) for p, x in zip(pat.patterns[k + 1:], items[len(items) - after:])):
                return False
            if pat.patterns[k].name is not None:
                binds[pat.patterns[k].name] = items[k:len(items) - after]
            return True
        if isinstance(pat, ast.MatchMapping):
            if not isinstance(subject, dict):
                return False
            used = []
            for kexpr, p in zip(pat.keys, pat.patterns):
                key = self.ev(kexpr)
                if key not in subject:
                    return False
                used.append(key)
                if not self._match(p, subject[key], binds):
                    return False
            if pat.rest is not None:
                binds[pat.rest] = {k: v for k, v in subject.items() if k not in used}
            return True
        raise Unsupported("match pattern %s" % type(pat).__name__)

    def s_FunctionDef(self, s):
        """an inner function: a closure over this frame's variables (read-only use of them; no decorators, no yield)"""
        if s.decorator_list:
            raise Unsupported("decorated inner function")
        if any(isinstance(n, (ast.Yield, ast.YieldFrom, ast.Nonlocal, ast.Global)) for n in ast.walk(s)):
            raise Unsupported("inner generator function / nonlocal")
        self.env[s.name] = _Closure(self, s)

    def s_Import(self, s):
        for a in s.names:
            mod = __import__(a.name)
            if a.asname:
                for part in a.name.split(".")[1:]:
                    mod = getattr(mod, part)
                self.env[a.asname] = mod
            else:
                self.env[a.name.split(".")[0]] = mod

    def s_ImportFrom(self, s):
        import importlib

        name = ("." * s.level) + (s.module or "")
        pkg = self.glob.get("__package__") or self.glob.get("__name__", "").rpartition(".")[0]
        mod = importlib.import_module(name, pkg) if s.level else importlib.import_module(s.module)
        for a in s.names:
            if a.name == "*":
                raise Unsupported("import * inside a function")
            try:
                v = getattr(mod, a.name)
            except AttributeError:
                v = importlib.import_module(mod.__name__ + "." + a.name)
            self.env[a.asname or a.name] = v

    def s_Global(self, s):
        self.globals_declared = getattr(self, "globals_declared", set()) | set(s.names)

    def s_Assert(self, s):
        if not self.I.truth(self.ev(s.test)):
            raise AssertionError(self.ev(s.msg) if s.msg else None)

    def s_Delete(self, s):
        for t in s.targets:
            if isinstance(t, ast.Subscript):
                obj = self.ev(t.value)
                idx = self.ev_index(obj, t.slice)
                self.I.ctx.writes.append((obj, "delitem", idx))
                if isinstance(idx, _SymSlice):
                    lo = self.I.ctx.concretize(idx.lo) if is_sym(idx.lo) else idx.lo
                    hi = self.I.ctx.concretize(idx.hi) if is_sym(idx.hi) else idx.hi
                    idx = slice(lo, hi)
                elif is_sym(idx):
                    raise Unsupported("del with symbolic key")
                if isinstance(obj, SBytes):
                    if not obj.mutable:
                        raise TypeError("'bytes' object doesn't support item deletion")
                    del obj.cells[idx]
                else:
                    del obj[idx]
            elif isinstance(t, ast.Name):
                del self.env[t.id]
            elif isinstance(t, ast.Attribute):
                obj = self.ev(t.value)
                self.I.ctx.writes.append((obj, "delattr", t.attr))
                delattr(obj, t.attr)
            else:
                raise Unsupported("del target %s" % type(t).__name__)

    def s_Return(self, s):
        raise _Return(self.ev(s.value) if s.value is not None else None)

    def s_Raise(self, s):
        if s.exc is None:
            exc = getattr(self, "_handling", None)
            if exc is None:
                raise RuntimeError("No active exception to reraise")
            raise exc
        exc = self.ev(s.exc)
        if isinstance(exc, type):
            exc = self.I.instantiate(exc, [], {}) if self.I.in_scope_module(exc.__module__) else exc()
        if s.cause is not None:
            cause = self.ev(s.cause)
            raise exc from cause
        raise exc

    def s_Try(self, s):
        try:
            try:
                self.exec_block(s.body)
            except EngineSignal:
                raise
            except BaseException as ex:
                for h in s.handlers:
                    if h.type is None:
                        ok = True
                    else:
                        t = self.ev(h.type)
                        ok = isinstance(ex, t)
                    if ok:
                        if h.name:
                            self.env[h.name] = ex
                        prev = getattr(self, "_handling", None)
                        self._handling = ex
                        try:
                            self.exec_block(h.body)
                        finally:
                            self._handling = prev
                            if h.name:
                                self.env.pop(h.name, None)
                        break
                else:
                    raise
            else:
                self.exec_block(s.orelse)
        finally:
            # engine control signals (_Return, _Break ...) run the finalbody too, as in Python
            if s.finalbody:
                self.exec_block(s.finalbody)

    def s_With(self, s):
        if len(s.items) != 1:
            raise Unsupported("with statement with several items")
        item = s.items[0]
        mgr = self.ev(item.context_expr)
        enter = self.get_attr(mgr, "__enter__")
        exit_ = self.get_attr(mgr, "__exit__")
        v = self.I.call(enter, [], {})
        if item.optional_vars is not None:
            self.store(item.optional_vars, v)
        try:
            self.exec_block(s.body)
        except EngineSignal as sig:
            if isinstance(sig, (_Return, _Break, _Continue)):
                self.I.call(exit_, [None, None, None], {})
            raise
        except BaseException as ex:
            if not self.I.truth(self.I.call(exit_, [type(ex), ex, ex.__traceback__], {})):
                raise
        else:
            self.I.call(exit_, [None, None, None], {})

    def s_Continue(self, s):
        raise _Continue()

    def s_Break(self, s):
        raise _Break()

    def s_Assign(self, s):
        v = self.ev(s.value)
        for t in s.targets:
            self.store(t, v)

    def s_AnnAssign(self, s):
        if s.value is not None:
            self.store(s.target, self.ev(s.value))

    def s_AugAssign(self, s):
        t = s.target
        if isinstance(t, ast.Name):
            cur = self.e_Name(ast.Name(id=t.id, ctx=ast.Load()))
            if isinstance(cur, (list, bytearray, SBytes, dict, set)) and isinstance(s.op, (ast.Add, ast.BitOr)):
                rhs = self.ev(s.value)
                self.I.ctx.writes.append((cur, "inplace", None))
                self.env[t.id] = self.inplace_add(cur, rhs) if isinstance(s.op, ast.Add) else self._inplace_or(cur, rhs)
                return
            self.env[t.id] = self.I.binop(type(s.op), cur, self.ev(s.value))
        elif isinstance(t, ast.Attribute):
            obj = self.ev(t.value)
            attr = self.mangle(t.attr)
            cur = self.get_attr(obj, attr)
            rhs = self.ev(s.value)
            if isinstance(cur, (list, bytearray, SBytes)) and isinstance(s.op, ast.Add):
                self.I.ctx.writes.append((cur, "inplace", None))
                self.set_attr(obj, attr, self.inplace_add(cur, rhs))
            else:
                self.set_attr(obj, attr, self.I.binop(type(s.op), cur, rhs))
        elif isinstance(t, ast.Subscript):
            obj = self.ev(t.value)
            idx = self.ev_index(obj, t.slice)
            cur = self.subscript(obj, idx)
            rhs = self.ev(s.value)
            if isinstance(cur, (list, bytearray, SBytes)) and isinstance(s.op, ast.Add) and not isinstance(idx, slice):
                self.I.ctx.writes.append((cur, "inplace", None))
                self.store_subscript(obj, idx, self.inplace_add(cur, rhs))
            else:
                self.store_subscript(obj, idx, self.I.binop(type(s.op), cur, rhs))
        else:
            raise Unsupported("augmented assignment target")

    def _inplace_or(self, cur, rhs):
        cur |= rhs
        return cur

    def inplace_add(self, cur, rhs):
        if isinstance(cur, SBytes):
            if isinstance(rhs, (SBuf, SZeros)):
                raise Unsupported("appending a symbolic-length buffer")
            if not cur.mutable:
                return SBytes(cur.cells + list(rhs), False)
            cur.cells.extend(list(rhs))
            return cur
        if isinstance(cur, bytearray):
            if isinstance(rhs, (SBuf, SZeros)):
                raise Unsupported("appending a symbolic-length buffer")
            if isinstance(rhs, SBytes) and not rhs.is_concrete():
                raise _NeedsSym(cur)
            if isinstance(rhs, SBytes):
                rhs = rhs.concrete()
            if isinstance(rhs, (list, tuple)):
                raise TypeError("can't concat %s to bytearray" % type(rhs).__name__)
            cur += rhs
            return cur
        if isinstance(cur, list):
            cur += list(rhs) if not isinstance(rhs, list) else rhs
            return cur
        raise Unsupported("in-place add on %s" % type(cur).__name__)

    def s_If(self, s):
        if self.I.truth(self.ev(s.test)):
            self.exec_block(s.body)
        else:
            self.exec_block(s.orelse)

    def s_While(self, s):
        hook = getattr(self.I, "loop_hook", None)
        if hook is not None:
            r = hook(self, s)
            if r is not None:
                return
        n = 0
        broke = False
        while True:
            tv = self.ev(s.test)
            if not self.I.truth(tv):
                break
            total = locals().get("total", 0) + 1
            if is_sym(tv):
                n += 1
                self.I.ctx.iters = max(self.I.ctx.iters, n)
                if n > self.I.ctx.loop_bound:
                    raise LoopBound()
            elif total > getattr(self.I.ctx, "concrete_loop_bound", 1000000):
                raise LoopBound()
            if total % 256 == 0:
                dl = getattr(self.I.ctx, "deadline", None)
                if dl is not None and time.time() > dl + 30:
                    # this one path has been running past the exploration budget of its case: the loop does not come
                    # to an end within it
                    raise LoopBound()
            try:
                self.exec_block(s.body)
            except _Break:
                broke = True
                break
            except _Continue:
                continue
        if not broke and s.orelse:
            self.exec_block(s.orelse)

    def iterate(self, it):
        it = self.I.ctx.resolve(it)
        if isinstance(it, SBytes):
            return list(it.cells)
        if isinstance(it, SBuf):
            n = self.I.ctx.concretize(it.n)
            return [self.buf_index(it, i) for i in range(n)]
        if isinstance(it, (SZeros,)):
            n = self.I.ctx.concretize(it.n)
            return [0] * n
        if isinstance(it, V.SymRange):
            return self._iter_symrange(it)
        if is_sym(it):
            raise Unsupported("iteration over %s" % type(it).__name__)
        return it

    def _iter_symrange(self, r):
        k = 0
        while self.I.truth(V.compare("<", V.arith("+", r.start, k * r.step), r.stop)):
            yield V.arith("+", r.start, k * r.step)
            k += 1
            if k > getattr(self.I.ctx, "concrete_loop_bound", 1000000):
                raise Unsupported("a range of symbolic length (already shown to be within the iteration bound) is iterated outside a `for` statement")

    def s_For(self, s):
        it = self.ev(s.iter)
        hook = getattr(self.I, "for_hook", None)
        if hook is not None and hook(self, s, it):
            return
        seq = self.iterate(it)
        broke = False
        count = 0
        # a native ITERATOR (itertools.count, iter(f, sentinel), a generator object ...) may never end; containers and
        # views are finite.  The limit is generous: it only has to stop an endless one.
        endless_guard = hasattr(seq, "__next__") and not isinstance(seq, types.GeneratorType)
        for x in (list(seq) if isinstance(seq, (list, dict, set)) or hasattr(seq, "keys") else seq):
            count += 1
            if endless_guard and count > 20000:
                raise V.LoopBound()
            self.store(s.target, x)
            try:
                self.exec_block(s.body)
            except _Break:
                broke = True
                break
            except _Continue:
                continue
        if not broke and s.orelse:
            self.exec_block(s.orelse)

    # ------------------------------------------------------------ stores
    def store(self, t, v):
        if isinstance(t, ast.Name):
            if t.id in getattr(self, "globals_declared", ()):
                self.I.ctx.writes.append((self.glob, "global", t.id))
                self.glob[t.id] = v
            else:
                self.env[t.id] = v
        elif isinstance(t, (ast.Tuple, ast.List)):
            if isinstance(v, SOpaque):
                # a sequence of unknown length (e.g. text.split(...)): unpacking succeeds or raises ValueError
                ok = SBool(z3.Bool(V.fresh_name("unpack-ok")))
                if not self.I.truth(ok):
                    raise ValueError("not enough / too many values to unpack (expected %d)" % len(t.elts))
                vs = [SOpaque("item-text" if v.tag.endswith("text-list") else "item", v, i) for i in range(len(t.elts))]
                for tt, vv in zip(t.elts, vs):
                    self.store(tt, vv)
                return
            vs = list(self.iterate(v))
            if len(vs) != len(t.elts):
                raise ValueError("not enough / too many values to unpack (expected %d, got %d)" % (len(t.elts), len(vs)))
            for tt, vv in zip(t.elts, vs):
                self.store(tt, vv)
        elif isinstance(t, ast.Attribute):
            self.set_attr(self.ev(t.value), self.mangle(t.attr), v)
        elif isinstance(t, ast.Subscript):
            obj = self.ev(t.value)
            self.store_subscript(obj, self.ev_index(obj, t.slice), v)
        else:
            raise Unsupported("assignment target %s" % type(t).__name__)

    def store_subscript(self, obj, idx, v):
        self.I.ctx.writes.append((obj, "setitem", idx if not is_sym(idx) else "<symbolic>"))
        if isinstance(obj, SBytes):
            if not obj.mutable:
                raise TypeError("'bytes' object does not support item assignment")
            if isinstance(idx, slice):
                if isinstance(v, (SBuf, SZeros)):
                    raise Unsupported("slice assignment from a symbolic-length buffer")
                if isinstance(v, (int, SInt)):
                    raise TypeError("can assign only bytes, buffers, or iterables of ints in range(0, 256)")
                obj.cells[idx] = list(v)
            else:
                if is_sym(idx):
                    idx = self.I.ctx.concretize(idx)
                if isinstance(v, SInt):
                    self.byte_range(v)
                elif not isinstance(v, int):
                    raise TypeError("'%s' object cannot be interpreted as an integer" % type(v).__name__)
                elif not 0 <= v <= 255:
                    raise ValueError("byte must be in range(0, 256)")
                obj.cells[idx] = v  # IndexError as for a list
            return
        if isinstance(obj, bytearray):
            if (isinstance(v, SInt) or (isinstance(v, SBytes) and not v.is_concrete())):
                raise _NeedsSym(obj)
            if isinstance(v, SBytes):
                v = v.concrete()
            if is_sym(idx):
                idx = self.I.ctx.concretize(idx)
            obj[idx] = v
            return
        if isinstance(obj, SMBuf):
            if isinstance(idx, (slice, _SymSlice)):
                raise Unsupported("slice store into an array-backed buffer")
            n = self.I.ctx.resolve(obj.n)
            idx = self.I.ctx.resolve(idx)
            if isinstance(idx, int) and idx < 0:
                idx = V.arith("+", n, idx)
            if not self.I.truth(V.band(V.compare(">=", idx, 0), V.compare("<", idx, n))):
                raise IndexError("bytearray index out of range")
            if isinstance(v, SInt):
                self.byte_range(v)
            elif not (isinstance(v, int) and 0 <= v <= 255):
                raise ValueError("byte must be in range(0, 256)")
            obj.arr = z3.Store(obj.arr, z3.simplify(V.to_intsort(idx)), z3.Extract(7, 0, V.to_bv(v)))
            return
        if isinstance(obj, (SBuf, SZeros)):
            raise Unsupported("store into a symbolic-length buffer")
        if isinstance(obj, dict) and isinstance(idx, (int, SInt)) and not isinstance(idx, (bool, SBool)) and \
                (isinstance(idx, SInt) or any(isinstance(k, SInt) for k in obj)):
            # integer keys compared by value: overwrite the entry whose key equals idx, else a new entry
            self.I.ctx.writes.append((obj, "setitem", None))
            for k in list(obj.keys()):
                if isinstance(k, (int, SInt)) and not isinstance(k, (bool, SBool)) and self.I.truth(V.compare("==", idx, k)):
                    obj[k] = v
                    return
            obj[idx] = v
            return
        if is_sym(idx) and isinstance(obj, (dict, list)) and not (isinstance(obj, dict) and isinstance(idx, SOpaque)):
            raise Unsupported("store with symbolic key")
        obj[idx] = v

    def byte_range(self, v):
        """bytearray cells must lie in 0..255 (CPython raises ValueError otherwise)"""
        if v.lo is not None and v.hi is not None and 0 <= v.lo and v.hi <= 255:
            return
        ok = V.band(V.compare(">=", v, 0), V.compare("<=", v, 255))
        if not self.I.truth(ok):
            raise ValueError("byte must be in range(0, 256)")

    def set_attr(self, obj, name, v):
        self.I.ctx.writes.append((obj, "setattr", name))
        if is_sym(obj):
            raise Unsupported("attribute store on symbolic value")
        if not isinstance(obj, type):
            d = _static_lookup(type(obj), name)
            if isinstance(d, property):
                if d.fset is None:
                    raise AttributeError("can't set attribute '%s'" % name)
                self.I.call(d.fset, [obj, v], {})
                return
        setattr(obj, name, v)

    def get_attr(self, obj, name):
        obj = self.I.ctx.resolve(obj)
        if is_sym(obj):
            from . import builtins_model

            return builtins_model.sym_attr(self.I, obj, name)
        if not isinstance(obj, type):
            d = _static_lookup(type(obj), name)
            if isinstance(d, property) and isinstance(d.fget, types.FunctionType) and self.I.in_scope(d.fget):
                return self.I.call(d.fget, [obj], {})
        else:
            d = _static_lookup(type(obj), name)  # property on the metaclass (Enum.keys)
            if isinstance(d, property) and isinstance(d.fget, types.FunctionType) and self.I.in_scope(d.fget) \
                    and d.fget not in self.I.native:
                return self.I.call(d.fget, [obj], {})
        return getattr(obj, name)

    # ------------------------------------------------------------ expressions
    def ev(self, e):
        m = getattr(self, "e_" + type(e).__name__, None)
        if m is None:
            raise Unsupported("expression %s" % type(e).__name__)
        return m(e)

    def e_Constant(self, e):
        return e.value

    def e_Name(self, e):
        if e.id in self.env:
            v = self.env[e.id]
            if type(v).__name__ == "_Poison":
                raise Unsupported("loop-carried variable %s is read before it is assigned in the loop body" % e.id)
            return v
        # free variables of a function created by a factory (a closure built natively, e.g. at import time)
        code = getattr(self.f, "__code__", None)
        if code is not None and e.id in code.co_freevars and getattr(self.f, "__closure__", None):
            cell = self.f.__closure__[code.co_freevars.index(e.id)]
            try:
                return cell.cell_contents
            except ValueError:
                raise NameError("free variable '%s' referenced before assignment in enclosing scope" % e.id) from None
        if e.id in self.glob:
            return self.glob[e.id]
        try:
            return getattr(builtins, e.id)
        except AttributeError:
            raise NameError("name '%s' is not defined" % e.id) from None

    def mangle(self, name):
        """private name mangling inside a class body (__x -> _Class__x)"""
        if name.startswith("__") and not name.endswith("__"):
            qn = self.f.__qualname__.split(".")
            if len(qn) >= 2 and qn[-2] != "<locals>":
                cls = qn[-2].lstrip("_")
                if cls:
                    return "_%s%s" % (cls, name)
        return name

    def e_Attribute(self, e):
        return self.get_attr(self.ev(e.value), self.mangle(e.attr))

    def e_BinOp(self, e):
        a = self.ev(e.left)
        b = self.ev(e.right)
        try:
            return self.I.binop(type(e.op), a, b)
        except _NeedsSym:
            raise Unsupported("native bytearray mixed with symbolic cells")

    def e_UnaryOp(self, e):
        v = self.ev(e.operand)
        if isinstance(e.op, ast.Not):
            if isinstance(v, (SBool, SInt)):
                return V.bnot(v)
            return not self.I.truth(v)
        if isinstance(v, (SInt, SBool)):
            if isinstance(e.op, ast.USub):
                return V.arith("-", 0, v)
            if isinstance(e.op, ast.Invert):
                return V.arith("-", -1, v)
            if isinstance(e.op, ast.UAdd):
                return v
        if is_sym(v):
            raise Unsupported("unary operator on %s" % type(v).__name__)
        return {ast.USub: operator.neg, ast.Invert: operator.invert, ast.UAdd: operator.pos}[type(e.op)](v)

    def e_BoolOp(self, e):
        if isinstance(e.op, ast.And):
            v = True
            for x in e.values:
                v = self.ev(x)
                if not self.I.truth(v):
                    return v
            return v
        v = False
        for x in e.values:
            v = self.ev(x)
            if self.I.truth(v):
                return v
        return v

    def e_Compare(self, e):
        left = self.ev(e.left)
        res = True
        n = len(e.ops)
        for i, (op, r) in enumerate(zip(e.ops, e.comparators)):
            right = self.ev(r)
            res = self.I.compare(type(op), left, right)
            if i < n - 1 and not self.I.truth(res):
                return False
            left = right
        return res

    def e_Call(self, e):
        # zero-argument super()
        if isinstance(e.func, ast.Name) and e.func.id == "super" and not e.args and "super" not in self.env:
            cls = _defining_class(self.f)
            first = next(iter(self.env.values()), None)
            if cls is None:
                raise Unsupported("zero-argument super() outside a resolvable class")
            return super(cls, first)
        f = self.ev(e.func)
        args = []
        for a in e.args:
            if isinstance(a, ast.Starred):
                args.extend(self.iterate(self.ev(a.value)))
            else:
                args.append(self.ev(a))
        kw = {}
        for k in e.keywords:
            if k.arg is None:
                d = self.ev(k.value)
                for kk in d.keys():
                    if kk in kw:
                        raise TypeError("got multiple values for keyword argument '%s'" % kk)
                    kw[kk] = d[kk]
            else:
                kw[k.arg] = self.ev(k.value)
        # mutation log for container methods
        if isinstance(f, types.BuiltinMethodType) and getattr(f, "__name__", "") in MUTATORS and f.__self__ is not None \
                and not isinstance(f.__self__, types.ModuleType):
            self.I.ctx.writes.append((f.__self__, "method:" + f.__name__, None))
        try:
            return self.I.call(f, args, kw)
        except _NeedsSym:
            raise Unsupported("native bytearray mixed with symbolic cells")

    def e_IfExp(self, e):
        return self.ev(e.body) if self.I.truth(self.ev(e.test)) else self.ev(e.orelse)

    def e_JoinedStr(self, e):
        parts = []
        sym = False
        for v in e.values:
            if isinstance(v, ast.Constant):
                parts.append(v.value)
            else:
                x = self.ev(v.value)
                if contains_sym(x):
                    sym = True
                    parts.append(x)
                else:
                    if v.conversion == 114:
                        x = repr(x)
                    elif v.conversion == 115:
                        x = str(x)
                    spec = self.ev(v.format_spec) if v.format_spec is not None else ""
                    parts.append(format(x, spec))
        if sym:
            return SOpaque("formatted-text", *parts)
        return "".join(parts)

    def e_FormattedValue(self, e):
        return self.e_JoinedStr(ast.JoinedStr(values=[e]))

    def e_Dict(self, e):
        d = {}
        for k, v in zip(e.keys, e.values):
            if k is None:
                d.update(self.ev(v))
            else:
                kk = self.ev(k)
                if is_sym(kk):
                    raise Unsupported("symbolic dictionary key")
                d[kk] = self.ev(v)
        return d

    def e_Set(self, e):
        return {self.ev(x) for x in e.elts}

    def e_List(self, e):
        out = []
        for x in e.elts:
            if isinstance(x, ast.Starred):
                out.extend(self.iterate(self.ev(x.value)))
            else:
                out.append(self.ev(x))
        return out

    def e_Tuple(self, e):
        return tuple(self.e_List(e))

    def e_Lambda(self, e):
        return _Closure(self, e)

    def e_Slice(self, e):
        lo = self.ev(e.lower) if e.lower is not None else None
        hi = self.ev(e.upper) if e.upper is not None else None
        st = self.ev(e.step) if e.step is not None else None
        return (lo, hi, st)

    def ev_index(self, obj, sl):
        """index / slice object for a subscript on obj; symbolic bounds are pinned unless obj is an SBuf"""
        if isinstance(sl, ast.Slice):
            lo, hi, st = self.e_Slice(sl)
            lo, hi, st = (self.I.ctx.resolve(x) for x in (lo, hi, st))
            if isinstance(obj, SStr):
                return slice(lo, hi, st)
            if isinstance(obj, (SBuf, SZeros, SMBuf)):
                if st is not None:
                    raise Unsupported("slice step on symbolic-length buffer")
                return _SymSlice(lo, hi)
            if isinstance(lo, (SInt, SBool)):
                lo = self.pin_index(lo, obj)
            if isinstance(hi, (SInt, SBool)):
                hi = self.pin_index(hi, obj)
            if is_sym(st):
                raise Unsupported("symbolic slice step")
            return slice(lo, hi, st)
        return self.I.ctx.resolve(self.ev(sl))

    def pin_index(self, v, obj):
        """a symbolic slice bound on a concrete-length sequence: clamp to 0..len and split"""
        n = len(obj) if hasattr(obj, "__len__") else None
        if n is None or n > 64:
            return self.I.ctx.concretize(v)
        # decide v <= 0 / v >= n first so that the remaining domain is small
        if self.I.truth(V.compare(">=", v, n)):
            return n
        if self.I.truth(V.compare("<=", v, 0)):
            # negative bounds count from the end; only 0 is distinguished cheaply
            if self.I.truth(V.compare("==", v, 0)):
                return 0
            return self.I.ctx.concretize(v, limit=64)
        return self.I.ctx.concretize(v, limit=64)

    def e_Subscript(self, e):
        obj = self.I.ctx.resolve(self.ev(e.value))
        idx = self.ev_index(obj, e.slice)
        return self.subscript(obj, idx)

    def subscript(self, obj, idx):
        if isinstance(obj, SBytes):
            if isinstance(idx, slice):
                return SBytes(obj.cells[idx], obj.mutable)
            if isinstance(idx, (SInt, SBool)):
                idx = self.I.ctx.concretize(idx, limit=max(16, len(obj.cells) + 1))
            return obj.cells[idx]
        if isinstance(obj, SBuf):
            if isinstance(idx, _SymSlice):
                return self.buf_slice(obj, idx.lo, idx.hi)
            return self.buf_index(obj, idx)
        if isinstance(obj, SMBuf):
            view = SBuf(obj.arr, 0, obj.n)  # z3 arrays are values: the view is a snapshot, as a Python slice is a copy
            if isinstance(idx, _SymSlice):
                return self.buf_slice(view, idx.lo, idx.hi)
            return self.buf_index(view, idx)
        if isinstance(obj, SZeros):
            if isinstance(idx, _SymSlice):
                raise Unsupported("slice of symbolic zero buffer")
            n = obj.n
            ok = V.band(V.compare("<", idx, n), V.compare(">=", idx, V.arith("-", 0, n)))
            if not self.I.truth(ok):
                raise IndexError("bytearray index out of range")
            if obj.havoc is not None:
                return obj.havoc(idx)
            return 0
        if isinstance(obj, SOpaque):
            return SOpaque("item-of:" + obj.tag, obj, idx)
        if isinstance(obj, SStr):
            if isinstance(idx, slice) and idx.step is None and (idx.start is None or (isinstance(idx.start, int) and idx.start >= 0)) \
                    and (idx.stop is None or (isinstance(idx.stop, int) and idx.stop >= 0)):
                lo = idx.start or 0
                if idx.stop is None:
                    return SStr(z3.SubString(obj.e, lo, z3.Length(obj.e)))
                return SStr(z3.SubString(obj.e, lo, max(idx.stop - lo, 0)))
            raise Unsupported("this subscript of a symbolic string")
        if isinstance(idx, (SInt, SBool)):
            return self.sym_lookup(obj, idx)
        if isinstance(obj, dict) and isinstance(idx, int) and any(isinstance(k, SInt) for k in obj):
            return self.sym_lookup(obj, idx)  # a dictionary that holds symbolic keys: compared by value
        if isinstance(idx, SStr):
            raise Unsupported("symbolic string key")
        if isinstance(idx, SOpaque):
            raise Unsupported("uninterpreted key")
        return obj[idx]

    def sym_lookup(self, obj, idx):
        """container[symbolic integer]"""
        if isinstance(obj, dict) and any(isinstance(k, SInt) for k in obj):
            # keys stored symbolically (see store): the first key equal in value, in insertion order
            for k in list(obj.keys()):
                if isinstance(k, (int, SInt)) and not isinstance(k, (bool, SBool)) and self.I.truth(V.compare("==", idx, k)):
                    return obj[k]
            raise KeyError(idx)
        if isinstance(obj, dict):
            ks = [k for k in obj.keys() if isinstance(k, int) and not isinstance(k, bool)]
            present = self.I.contains(obj, idx) if ks else False
            if not self.I.truth(present):
                raise KeyError(idx)
            vals = [obj[k] for k in ks]
            if len(ks) <= 24 or all(isinstance(v, int) for v in vals):
                if all(isinstance(v, int) and not isinstance(v, bool) for v in vals):
                    r = vals[-1]
                    for k, v in zip(ks[:-1], vals[:-1]):
                        r = V.ite(V.compare("==", idx, k), v, r)
                    return r
                if len(ks) <= 24:
                    for k in ks[:-1]:
                        if self.I.truth(V.compare("==", idx, k)):
                            return obj[k]
                    return obj[ks[-1]]
            return SOpaque("table-lookup-text" if all(isinstance(v, str) for v in vals) else "table-lookup", obj, idx)
        if isinstance(obj, (list, tuple, range, bytes, bytearray, str)):
            n = len(obj)
            # CPython: valid indices are -n .. n-1, everything else raises IndexError
            if not self.I.truth(V.band(V.compare(">=", idx, -n), V.compare("<", idx, n))):
                raise IndexError("%s index out of range" % type(obj).__name__)
            i = self.I.ctx.concretize(idx, limit=max(16, 2 * n + 1))
            return obj[i]
        raise Unsupported("symbolic index into %s" % type(obj).__name__)

    def buf_index(self, buf, idx):
        ctx = self.I.ctx
        n = ctx.resolve(buf.n)
        idx = ctx.resolve(idx)
        if isinstance(idx, int) and idx < 0:
            idx = V.arith("+", n, idx)
        elif isinstance(idx, SInt):
            if self.I.truth(V.compare("<", idx, 0)):
                idx = V.arith("+", n, idx)
        ok = V.band(V.compare("<", idx, n), V.compare(">=", idx, 0))
        if not self.I.truth(ok):
            raise IndexError("index out of range")
        pos = V.arith("+", buf.off, idx)
        pe = z3.simplify(V.to_intsort(pos))
        return SInt(z3.ZeroExt(V.W - 8, z3.Select(buf.arr, pe)), 0, 255)

    def buf_slice(self, buf, lo, hi):
        ctx = self.I.ctx
        n = V.to_intsort(ctx.resolve(buf.n))
        off = V.to_intsort(buf.off)

        def bound(b, default):
            if b is None:
                return default
            b = ctx.resolve(b)
            if isinstance(b, int) and b < 0:
                return _imax0(n + b)
            if isinstance(b, SInt) and (b.lo is None or b.lo < 0):
                be = V.to_intsort(b)
                return z3.If(be < 0, _imax0(n + be), be)
            return V.to_intsort(b)

        lo_e = bound(lo, z3.IntVal(0))
        hi_e = bound(hi, n)
        start = _imin(lo_e, n)
        stop = _imin(hi_e, n)
        ln = z3.simplify(_imax0(stop - start))
        nbound = buf.n.hi if isinstance(buf.n, SInt) else buf.n
        lo_r = ctx.resolve(lo) if lo is not None else 0
        hi_r = ctx.resolve(hi) if hi is not None else None
        if isinstance(lo_r, int) and isinstance(hi_r, int) and 0 <= lo_r <= hi_r:
            nbound = hi_r - lo_r if nbound is None else min(nbound, hi_r - lo_r)
        elif isinstance(lo_r, int) and lo_r >= 0 and nbound is not None:
            nbound = max(0, nbound - lo_r)
        # a slice with concrete bounds usually has its full length once the path knows the buffer is long enough:
        # one feasibility query pins it to a concrete length (keeps the decode terms free of if-then-else chains)
        if not z3.is_int_value(ln) and isinstance(lo_r, int) and isinstance(hi_r, int) and 0 <= lo_r <= hi_r:
            full = hi_r - lo_r
            if not ctx.feasible(ln != full):
                ln = z3.IntVal(full)
                start = z3.simplify(off + lo_r) if not z3.is_int_value(z3.simplify(off)) else z3.IntVal(z3.simplify(off).as_long() + lo_r)
                off_c = ctx.define("off", start)
                nn = full
                oo = off_c.as_long() if z3.is_int_value(off_c) else SInt(off_c, 0, None)
                return SBuf(buf.arr, oo, nn)
        ln_c = ctx.define("len", ln)
        off_c = ctx.define("off", off + start)
        nn = ln_c.as_long() if z3.is_int_value(ln_c) else SInt(ln_c, 0, nbound)
        oo = off_c.as_long() if z3.is_int_value(off_c) else SInt(off_c, 0, None)
        return SBuf(buf.arr, oo, nn)

    def _comp(self, gens, body):
        def rec(i):
            if i == len(gens):
                yield body()
                return
            g = gens[i]
            seq = self.iterate(self.ev(g.iter))
            for x in list(seq):
                self.store(g.target, x)
                if all(self.I.truth(self.ev(c)) for c in g.ifs):
                    yield from rec(i + 1)

        saved = dict(self.env)
        if getattr(self.I.ctx, "range_bound", None) is not None:
            # termination contracts over buffers of any length: a comprehension over a range of symbolic length (whose
            # length was checked against the iteration bound when the range was built) is summarised: a list of
            # unknown contents -- only its termination matters there
            first = self.ev(gens[0].iter)
            if isinstance(first, V.SymRange):
                return SOpaque("list-built-by-a-comprehension-over-a-range-of-symbolic-length", first)
        if getattr(self.I.ctx, "range_bound", None) is not None or getattr(self.I.ctx, "summarise", False):
            # (the same for a comprehension over the bytes of a buffer of symbolic length: a finite loop over the buffer,
            # as list(buffer) and `for x in buffer` are in these contracts)
            first = self.I.ctx.resolve(self.ev(gens[0].iter))
            if isinstance(first, (SBuf, SZeros)) and isinstance(self.I.ctx.resolve(first.n), SInt):
                return SOpaque("list-built-by-a-comprehension-over-a-buffer-of-symbolic-length", first)
        try:
            return list(rec(0))
        finally:
            # comprehension variables do not leak (Python 3 scoping)
            for g in gens:
                for n in ast.walk(g.target):
                    if isinstance(n, ast.Name):
                        if n.id in saved:
                            self.env[n.id] = saved[n.id]
                        else:
                            self.env.pop(n.id, None)

    def e_NamedExpr(self, e):
        v = self.ev(e.value)
        self.store(e.target, v)
        return v

    def e_Yield(self, e):
        ys = getattr(self, "yielded", None)
        if ys is None:
            raise Unsupported("yield outside an eagerly evaluated generator function")
        ys.append(self.ev(e.value) if e.value is not None else None)
        if len(ys) > getattr(self.I.ctx, "concrete_loop_bound", 1000000):
            raise V.LoopBound()
        return None

    def e_YieldFrom(self, e):
        ys = getattr(self, "yielded", None)
        if ys is None:
            raise Unsupported("yield from outside an eagerly evaluated generator function")
        ys.extend(list(self.iterate(self.ev(e.value))))
        return None

    def e_GeneratorExp(self, e):
        return _GenResult(self._comp(e.generators, lambda: self.ev(e.elt)))

    def e_ListComp(self, e):
        return self._comp(e.generators, lambda: self.ev(e.elt))

    def e_SetComp(self, e):
        return set(self._comp(e.generators, lambda: self.ev(e.elt)))

    def e_DictComp(self, e):
        return dict(self._comp(e.generators, lambda: (self.ev(e.key), self.ev(e.value))))

    def e_Starred(self, e):
        raise Unsupported("starred expression here")


class _Closure:
    """a lambda of the interpreted code: calling it (also from native code such as sorted(key=...)) evaluates the
    body in the interpreter with the defining frame's variables visible"""

    def __init__(self, frame, node):
        self.frame = frame
        self.node = node
        a = node.args
        if a.vararg or a.kwarg or a.kwonlyargs or a.posonlyargs:
            raise Unsupported("lambda with star / keyword-only parameters")
        self.params = [x.arg for x in a.args]
        self.defaults = [frame.ev(d) for d in a.defaults]

    def __call__(self, *args, **kwargs):
        if len(args) > len(self.params):
            raise TypeError("<lambda>() takes %d positional arguments but %d were given" % (len(self.params), len(args)))
        env = dict(self.frame.env)
        nd = len(self.defaults)
        for i, p in enumerate(self.params):
            if i < len(args):
                env[p] = args[i]
            elif p in kwargs:
                env[p] = kwargs[p]
            elif i >= len(self.params) - nd:
                env[p] = self.defaults[i - (len(self.params) - nd)]
            else:
                raise TypeError("<lambda>() missing required argument '%s'" % p)
        f = Frame(self.frame.I, self.frame.f, env)
        if isinstance(self.node, ast.FunctionDef):
            # an inner `def`: statements, result through return (no yield: checked when it was defined)
            try:
                f.exec_block(self.node.body)
            except _Return as r:
                return r.v
            return None
        return f.ev(self.node.body)


class _GenResult(list):
    """an eagerly evaluated generator expression (the generators of this code base have no side effects
    between items; noted as an assumption of the interpreter)"""


class _SymSlice:
    __slots__ = ("lo", "hi")

    def __init__(self, lo, hi):
        self.lo = lo
        self.hi = hi


class _NeedsSym(EngineSignal):
    def __init__(self, obj):
        self.obj = obj


def _imin(a, b):
    return z3.If(a <= b, a, b)


def _imax0(a):
    return z3.If(a >= 0, a, z3.IntVal(0))


def _static_lookup(tp, name):
    for k in tp.__mro__:
        if name in k.__dict__:
            return k.__dict__[name]
    return None


def _defining_class(f):
    qn = f.__qualname__.split(".")
    if len(qn) < 2:
        return None
    import sys

    obj = sys.modules.get(f.__module__)
    for part in qn[:-1]:
        obj = getattr(obj, part, None)
        if obj is None:
            return None
    return obj if isinstance(obj, type) else None

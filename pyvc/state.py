# pyvc.state -- snapshot / diff / restore of the state that outlives a call: attributes of every class and
# the globals of every module of the package under verification.  Used (a) to roll back real writes that the
# interpreted code performs on pre-existing objects before the next path is explored, and (b) as the net-effect
# half of the C09 frame conditions (what differs after a call is what the call wrote).
import sys
import types

_CONTAINERS = (dict, list, bytearray, set)


def _freeze(v, depth=0):
    if depth > 6:
        return ("deep", id(v))
    if isinstance(v, dict):
        return ("dict", tuple((repr(k), _freeze(x, depth + 1)) for k, x in v.items()))
    if isinstance(v, (list, tuple)):
        return (type(v).__name__, tuple(_freeze(x, depth + 1) for x in v))
    if isinstance(v, (bytearray, bytes)):
        return (type(v).__name__, bytes(v))
    if isinstance(v, (set, frozenset)):
        return ("set", tuple(sorted(repr(x) for x in v)))
    if isinstance(v, (int, str, float, bool, type(None))):
        return v
    return ("obj", id(v))


def _copy(v, depth=0):
    if depth > 6:
        return v
    if isinstance(v, dict):
        return {k: _copy(x, depth + 1) for k, x in v.items()}
    if isinstance(v, list):
        return [_copy(x, depth + 1) for x in v]
    if isinstance(v, bytearray):
        return bytearray(v)
    if isinstance(v, set):
        return set(v)
    return v


def _restore_into(live, saved):
    """make container `live` equal to the saved copy, in place"""
    if isinstance(live, dict):
        live.clear()
        live.update(saved)
    elif isinstance(live, list):
        live[:] = saved
    elif isinstance(live, bytearray):
        live[:] = saved
    elif isinstance(live, set):
        live.clear()
        live.update(saved)


def package_objects(prefixes=("pyscsi",)):
    """(owner, dict-like namespace) of every module and every class defined in the package"""
    out = []
    seen = set()
    for name, mod in list(sys.modules.items()):
        if mod is None or not any(name == p or name.startswith(p + ".") for p in prefixes):
            continue
        out.append((mod, "module:" + name))
        for k, v in list(vars(mod).items()):
            if isinstance(v, type) and id(v) not in seen and any(
                    (getattr(v, "__module__", "") or "").startswith(p) for p in prefixes):
                seen.add(id(v))
                out.append((v, "class:%s.%s" % (v.__module__, v.__qualname__)))
    return out


def clear_function_caches(prefixes=("pyscsi",)):
    """functools caches around functions of the package are state that outlives a call but is invisible to a
    namespace comparison: every restore empties them (a case / a native run starts with empty caches)"""
    n = 0
    for owner, _ in package_objects(prefixes):
        for v in list(vars(owner).values()):
            f = getattr(v, "__func__", v)
            if callable(getattr(f, "cache_clear", None)) and callable(getattr(f, "cache_info", None)):
                try:
                    f.cache_clear()
                    n += 1
                except Exception:
                    pass
    return n


class StateGuard:
    def __init__(self, prefixes=("pyscsi",), extra_objects=()):
        self.owners = package_objects(prefixes)
        self.extra = list(extra_objects)  # (obj, label): instances whose attributes are part of the frame
        self.snap = None

    def _index(self, v, top, depth=0):
        if depth > 6 or not isinstance(v, (dict, list, bytearray, set, tuple)):
            return
        self.nested[id(v)] = top
        if isinstance(v, dict):
            for x in v.values():
                self._index(x, top, depth + 1)
        elif isinstance(v, (list, tuple)):
            for x in v:
                self._index(x, top, depth + 1)

    def snapshot(self):
        self.nested = {}  # id of any (nested) container of the watched state -> (owner index, attribute)
        snap = []
        for owner, label in self.owners + self.extra:
            ns = dict(vars(owner))
            rec = {}
            for k, v in ns.items():
                if k in ("__builtins__", "__dict__", "__weakref__"):
                    continue
                if isinstance(v, (types.ModuleType, types.FunctionType, type, staticmethod, classmethod, property)):
                    rec[k] = (v, ("obj", id(v)), None)
                else:
                    rec[k] = (v, _freeze(v), _copy(v) if isinstance(v, _CONTAINERS) else None)
                    self._index(v, (len(snap), k))
            snap.append((owner, label, rec))
        self.snap = snap

    def diff(self, written=None):
        """list of (label, attribute, kind) for everything that differs from the snapshot.
        written=None: full comparison (bindings and deep contents).  written=iterable of objects the interpreter
        stored into: bindings are compared for everything, deep contents only for containers of the watched
        state among them (mutations performed by native code are found by the full comparison at the end)."""
        out = []
        deep = None
        if written is not None:
            deep = set()
            for obj in written:
                t = self.nested.get(id(obj))
                if t is not None:
                    deep.add(t)
        for oi, (owner, label, rec) in enumerate(self.snap):
            ns = vars(owner)
            for k, (v, frozen, _) in rec.items():
                cur = ns.get(k, _MISSING)
                if cur is _MISSING:
                    out.append((label, k, "deleted"))
                elif cur is not v:
                    out.append((label, k, "rebound"))
                elif (deep is None or (oi, k) in deep) and frozen.__class__ is tuple and _freeze(cur) != frozen:
                    out.append((label, k, "mutated"))
            if len(ns) != len(rec):
                for k in ns:
                    if k not in rec and k not in ("__builtins__", "__dict__", "__weakref__"):
                        out.append((label, k, "added"))
        return out

    def restore(self, diffs=None):
        clear_function_caches()
        if diffs is not None and not diffs:
            return
        for owner, label, rec in self.snap:
            ns = vars(owner)
            for k in list(ns.keys()):
                if k not in rec and k not in ("__builtins__", "__dict__", "__weakref__"):
                    try:
                        delattr(owner, k)
                    except (AttributeError, TypeError):
                        pass
            for k, (v, frozen, saved) in rec.items():
                cur = ns.get(k, _MISSING)
                if cur is not v:
                    try:
                        setattr(owner, k, v)
                    except (AttributeError, TypeError):
                        pass
                if saved is not None and _freeze(v) != frozen:
                    _restore_into(v, saved)


_MISSING = object()

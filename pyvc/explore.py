# pyvc.explore -- path contexts and exhaustive path enumeration by re-execution with a decision prefix
import time

import z3

from . import values as V
from .values import Unsupported, EngineSignal, LoopBound


class PathLimit(Unsupported):
    pass


class Ctx:
    """one execution path: path condition, decision log, incremental solver for feasibility"""

    def __init__(self, prefix=(), timeout_ms=10000, loop_bound=100000):
        self.prefix = list(prefix)  # [(choice, forced)]
        self.log = []  # [(choice, forced)] of this run
        self.pc = []  # z3 Bool terms: assumptions, decisions, definitional equations
        self.decisions = []  # the subset of pc that are branch decisions (for reports)
        self.solver = z3.Solver()
        self.solver.set("timeout", timeout_ms)
        self.timeout_ms = timeout_ms
        self.loop_bound = loop_bound
        self.concrete_loop_bound = 1000000
        self.iters = 0
        self.subst = {}  # pinned symbolic sizes: sexpr -> int
        self.writes = []  # (obj, kind, key) for every store performed by the interpreter
        self.trace = []  # external calls / events recorded by stubs and contracts
        self.obligations = []  # (name, z3 Bool) emitted during execution (callee preconditions etc.)
        self.solver_calls = 0
        self.solver_time = 0.0
        self.notes = []

    # -- assumptions
    def assume(self, c):
        if isinstance(c, V.SBool):
            c = c.e
        elif isinstance(c, bool):
            if not c:
                raise Unsupported("assumption is literally False")
            return
        self.pc.append(c)
        self.solver.add(c)

    def define(self, tag, e):
        """name an Int/BV term by a fresh constant (keeps nested slice-clamping terms small)"""
        e = z3.simplify(e)
        if z3.is_int_value(e) or z3.is_bv_value(e) or z3.is_const(e):
            return e
        c = z3.Const(V.fresh_name(tag), e.sort())
        self.pc.append(c == e)
        self.solver.add(c == e)
        return c

    def _check(self, c):
        self.solver.push()
        self.solver.add(c)
        t0 = time.time()
        r = self.solver.check()
        self.solver_calls += 1
        self.solver_time += time.time() - t0
        self.solver.pop()
        if r == z3.unknown:
            # a busy machine can make a trivial query miss its time limit: once more, with a fresh solver and a
            # longer limit, before the case is given up as undecided
            why = self.solver.reason_unknown()
            s2 = z3.Solver()
            s2.set("timeout", int(self.timeout_ms) * 4)
            for a in self.pc:
                s2.add(a)
            s2.add(c)
            t0 = time.time()
            r = s2.check()
            self.solver_calls += 1
            self.solver_time += time.time() - t0
            if r == z3.unknown:
                raise Unsupported("solver returned unknown on a branch feasibility query (%s; %s)" % (why, s2.reason_unknown()))
        return r == z3.sat

    def feasible(self, c):
        c = z3.simplify(c)
        if z3.is_true(c):
            return True
        if z3.is_false(c):
            return False
        return self._check(c)

    def decide(self, cond):
        cond = z3.simplify(cond)
        if z3.is_true(cond) or z3.is_false(cond):
            # logged like every other decision: the re-execution of a path is aligned with its prefix by the NUMBER of
            # decisions, and whether the simplifier reduces a condition to a literal may differ between two executions
            # of the same code (it depends on the order in which z3 terms were created)
            lit = z3.is_true(cond)
            i = len(self.log)
            if i < len(self.prefix) and self.prefix[i][0] != lit:
                if self.prefix[i][1]:
                    raise Unsupported("re-execution of a path diverged from its recorded decisions")
                # the recorded branch is the other one, which is infeasible here: this path does not exist
                raise Unsupported("infeasible path reached")
            self.log.append((lit, True))
            return lit
        i = len(self.log)
        if i < len(self.prefix):
            choice, forced = self.prefix[i]
        else:
            t = self._check(cond)
            if not t:
                choice, forced = False, True
            else:
                f = self._check(z3.Not(cond))
                if not f:
                    choice, forced = True, True
                else:
                    choice, forced = True, False
        self.log.append((choice, forced))
        c = cond if choice else z3.Not(cond)
        if not forced:
            self.pc.append(c)
            self.decisions.append(c)
            self.solver.add(c)
        return choice

    def oblige(self, name, cond):
        """an obligation generated inside the execution (e.g. a callee's precondition)"""
        if isinstance(cond, V.SBool):
            cond = cond.e
        self.obligations.append((name, cond))

    # -- small-domain split of a symbolic size
    def concretize(self, v, limit=16):
        if not isinstance(v, V.SInt):
            return v
        key = v.e.sexpr()
        if key in self.subst:
            return self.subst[key]
        e = z3.simplify(v.e)
        if z3.is_int_value(e) or z3.is_bv_value(e):
            return e.as_long() if z3.is_int_value(e) else e.as_signed_long()
        vals = []
        s = self.solver
        s.push()
        while len(vals) <= limit:
            r = s.check()
            self.solver_calls += 1
            if r == z3.unknown:
                s.pop()
                raise Unsupported("solver unknown while enumerating a small domain")
            if r != z3.sat:
                break
            m = s.model().eval(v.e, model_completion=True)
            m = m.as_long() if z3.is_int_value(m) else m.as_signed_long()
            vals.append(m)
            s.add(v.e != m)
        s.pop()
        if len(vals) > limit:
            raise Unsupported("symbolic size with a domain larger than %d needs a concrete value here" % limit)
        if not vals:
            raise Unsupported("infeasible path reached")
        vals.sort()
        res = vals[-1]
        for m in vals[:-1]:
            if self.decide(v.e == m):
                res = m
                break
        self.subst[key] = res
        return res

    def resolve(self, v):
        if isinstance(v, V.SInt) and self.subst:
            return self.subst.get(v.e.sexpr(), v)
        return v


def explore(fn, max_paths=20000, timeout_ms=10000, loop_bound=100000, on_path=None, deadline=None, truncate=None, concrete_loop_bound=None):
    """fn(ctx) -> outcome.  Enumerates every feasible path.  Returns list of (ctx, kind, value) with kind in
    'return' | 'raise' | 'loopbound'.  EngineSignals (Unsupported ...) propagate."""
    stack = [[]]
    out = []
    while stack:
        prefix = stack.pop()
        ctx = Ctx(prefix, timeout_ms=timeout_ms, loop_bound=loop_bound)
        if concrete_loop_bound is not None:
            ctx.concrete_loop_bound = concrete_loop_bound
        ctx.deadline = deadline  # (loops of the interpreted code look at it: one endless path must not outlive the budget)
        V.CUR = ctx
        try:
            try:
                r = ("return", fn(ctx))
            except LoopBound:
                r = ("loopbound", None)
            except EngineSignal:
                raise
            except RecursionError:
                raise Unsupported("recursion limit of the interpreter reached")
            except BaseException as ex:  # an exception raised by the interpreted code
                r = ("raise", ex)
        finally:
            V.CUR = None
        ctx.solver = None  # the path condition (ctx.pc) is what later stages use; thousands of live solvers exhaust memory
        item = (ctx, r[0], r[1])
        if on_path is not None:
            on_path(item)
        out.append(item)
        for i in range(len(prefix), len(ctx.log)):
            choice, forced = ctx.log[i]
            if not forced:
                stack.append(ctx.log[:i] + [(not choice, False)])
        if len(out) > max_paths or (deadline is not None and time.time() > deadline):
            why = "more than %d paths" % max_paths if len(out) > max_paths else "path exploration exceeded its time budget"
            if truncate is not None and stack:
                truncate.append("%s: stopped after %d paths with %d branches unexplored" % (why, len(out), len(stack)))
                return out
            if stack:
                raise PathLimit(why)
    return out

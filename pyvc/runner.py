# pyvc.runner -- runs every unit that contributes to a property, aggregates obligations, replays
# counterexamples natively, applies known_findings.txt, writes the evidence file, sets the exit code.
#
# exit 0: every obligation discharged (KNOWN-FINDING lines allowed) | 1: unlisted violation(s), one VIOLATION line
# each | 2: undecided (solver unknown / timeout / unsupported construct) | 3: checker error
import fnmatch
import hashlib
import json
import os
import subprocess
import sys
import time

VERIF = os.path.dirname(os.path.dirname(os.path.abspath(__file__)))
OUT = os.environ.get("VERIF_OUT_DIR", VERIF)  # evidence/ and replays/ go here (the self-test redirects them)
REPO = os.environ.get("PYSCSI_REPO", "/repo")
REPLAY_PY = "/venv/bin/python" if os.path.exists("/venv/bin/python") else sys.executable

TRUSTED_BASE = [
    "pyvc: AST-walking symbolic interpreter / VC generator written for this task (semantics of the Python subset in DESIGN.md 3.2)",
    "CPython 3.11 for every sub-computation on concrete operands; CPython 3.12 (/venv) for native replays",
    "z3 5.1.0 (python API) and cvc5 1.0.3 (CLI) as back ends",
    "spec/: independent transcription of SPC-4, SBC-3, SMC-3, MMC-6, SAT-3, SAM-5 and the T10 code lists (hand-written oracle)",
]
GENERAL_ASSUMPTIONS = [
    "Python integers are modelled as 256-bit two's-complement vectors; every + - * << is guarded by an interval check that excludes wrap-around (violations make the unit undecided, never a pass)",
    "generator expressions of the library are evaluated eagerly (they have no side effects between items)",
    "inputs are quantified over the field widths the standards give them (stated per unit as `U(bits)`)",
    "resource limits of the checker: workers run under an 8 GiB address-space limit (a MemoryError of the code under test on unconstrained sizes is a skipped native run, not a verdict); native runs are time-boxed (60 s; a run that does not return is the outcome 'does not terminate'); the truth value of an uninterpreted value forks on a fresh boolean (over-approximation; spurious counterexamples do not replay and are not reported)",
]


def load_contracts():
    if VERIF not in sys.path:
        sys.path.insert(0, VERIF)
    if REPO not in sys.path:
        sys.path.insert(0, REPO)
    from spec import stubs

    stubs.install()  # before any pyscsi device module is imported
    import pyscsi

    assert os.path.abspath(pyscsi.__file__).startswith(os.path.abspath(REPO) + os.sep), \
        "pyscsi imported from %s, not from %s" % (pyscsi.__file__, REPO)
    import contracts

    contracts.load_all()
    from pyvc.unit import REGISTRY

    return REGISTRY


def read_known_findings(prop):
    path = os.path.join(VERIF, "known_findings.txt")
    out = []
    if not os.path.exists(path):
        return out
    for line in open(path):
        line = line.strip()
        if not line.startswith("known:"):
            continue
        head, _, text = line[len("known:"):].partition("|")
        kv = dict(p.split("=", 1) for p in head.split() if "=" in p)
        if kv.get("property") == prop and "key" in kv:
            out.append(dict(key=kv["key"], text=text.strip(), hit=False))
    return out


def tree_id():
    try:
        h = subprocess.run(["git", "-C", REPO, "rev-parse", "--short", "HEAD"], capture_output=True, text=True).stdout.strip()
        d = subprocess.run(["git", "-C", REPO, "status", "--porcelain"], capture_output=True, text=True).stdout
        return h + ("+dirty:" + hashlib.sha1(d.encode()).hexdigest()[:8] if d.strip() else "")
    except Exception:
        return "?"


def _job(unit_name, case, prop, tier, opts):
    from pyvc.verify import verify_case

    return verify_case(unit_name, case, prop, tier, opts)


def write_replay(prop, ob, res, extra=None):
    d = os.path.join(OUT, "replays", prop)
    os.makedirs(d, exist_ok=True)
    h = hashlib.sha1(ob["name"].encode()).hexdigest()[:12]
    path = os.path.join(d, h + ".json")
    doc = dict(property=prop, obligation=ob["name"], unit=res["unit"], case=res["case"], inputs=ob.get("inputs"),
               outcome_in_verifier=ob.get("outcome"), backend=ob.get("backend"), decisions=ob.get("decisions"),
               tree=tree_id(), verifier_output="obligation not discharged: %s returned a model of requires & path-condition & not(clause)" % ob.get("backend"))
    if extra:
        doc.update(extra)
    with open(path, "w") as f:
        json.dump(doc, f, indent=1, default=str)
    return path


def run_replay(path, timeout=60):
    env = dict(os.environ)
    env["PYTHONPATH"] = VERIF + os.pathsep + REPO
    env["PYTHONDONTWRITEBYTECODE"] = "1"
    try:
        p = subprocess.run([REPLAY_PY, "-B", os.path.join(VERIF, "pyvc", "replay.py"), path], capture_output=True, text=True,
                           timeout=timeout, env=env)
    except subprocess.TimeoutExpired:
        return 124, "replay timed out after %d s (the inputs may describe a transfer of gigabytes)" % timeout
    return p.returncode, (p.stdout + p.stderr)[-3000:]


def run_property(prop, tier="quick", seed=0, unit_filter=None, nproc=None, extra_evidence=None, post=None, quiet=False):
    t0 = time.time()
    from pyvc import pool

    import shutil

    shutil.rmtree(os.path.join(OUT, "replays", prop), ignore_errors=True)
    registry = load_contracts()
    units = [u for u in registry.values() if prop in u.properties and (unit_filter is None or fnmatch.fnmatch(u.name, unit_filter))]
    jobs = []
    for u in units:
        for case in u.cases(tier):
            jobs.append((u.name, case, prop, tier, dict(seed=seed)))
    if not jobs:
        print("CHECKER-ERROR property=%s no units / cases registered" % prop)
        return 3
    job_timeout = 900 if tier == "quick" else 3600
    raw = pool.run_jobs(_job, jobs, nproc=nproc or int(os.environ.get("VERIF_NPROC", "16")), job_timeout=job_timeout)
    known = read_known_findings(prop)
    obligations = discharged = 0
    backends = {}
    violations, undecided, errors, notes = [], [], [], []
    solver_time = 0.0
    paths = 0
    canaries = canaries_refuted = witnesses = 0
    functions, interpreted = set(), set()
    samples = []
    bounded_units = []
    frame_diffs = []
    per_unit = {}
    for (uname, case, _, _, _), (kind, res) in zip(jobs, raw):
        if kind == "timeout":
            undecided.append(dict(name="%s[%s]" % (uname, registry[uname].case_id(case)), reason="timeout: job killed after %ds" % job_timeout))
            continue
        if kind == "error":
            errors.append("%s[%s]: %s" % (uname, registry[uname].case_id(case), res))
            continue
        paths += res["paths"]
        solver_time += res["solver_time"]
        canaries += res["canaries"]
        canaries_refuted += res["canaries_refuted"]
        witnesses += res["witnesses_checked"]
        functions.update(res["functions"])
        interpreted.update(res["interpreted"])
        frame_diffs.extend(dict(d, unit=uname, case=res["case_id"]) for d in res["frame_diffs"])
        if res["status"] == "error":
            errors.append("%s[%s]: %s" % (uname, res["case_id"], "; ".join(res["notes"])[:3000]))
        else:
            notes.extend(res["notes"])
        if res["level"] != "proof":
            bnote = "%s: %s" % (uname, res["bound_note"])
            if bnote not in bounded_units:
                bounded_units.append(bnote)
        undecided.extend(res["undecided"])
        pu = per_unit.setdefault(uname, dict(obligations=0, discharged=0, cases=0, paths=0))
        pu["cases"] += 1
        pu["paths"] += res["paths"]
        for ob in res["obligations"]:
            obligations += 1
            pu["obligations"] += 1
            if ob["verdict"] == "proved":
                discharged += 1
                pu["discharged"] += 1
                backends[ob["backend"]] = backends.get(ob["backend"], 0) + 1
                if len(samples) < 6 and ob["backend"] not in ("ground",) and not any(s["name"].split("[")[0] == ob["name"].split("[")[0] for s in samples):
                    samples.append(dict(name=ob["name"], verdict="proved", backend=ob["backend"], time_s=ob["time"], path_outcome=ob["outcome"]))
        for ob in res["violations"]:
            violations.append((ob, res))

    # ---- violations: group, replay natively, match against known findings
    exit_code = 0
    grouped = {}
    for ob, res in violations:
        unit_clause = ob["name"].split("[", 1)[0] + "/" + ob["name"].rsplit("]/", 1)[-1]
        if "/frame:" in ob["name"]:
            # one interference search per written location, not per unit and case
            import re as _re

            loc = _re.findall(r"\(([^()]*)\)\s*$", ob["name"])
            unit_clause = "frame-write:" + (loc[0].replace("setattr ", "").replace("setitem into ", "") if loc else ob["name"].rsplit("]/", 1)[-1])
        grouped.setdefault(unit_clause, []).append((ob, res))
    reported = []
    frame_searches = 0
    frame_search_time = 0.0
    frame_search_budget = 1200 if tier == "quick" else 7200
    for key, items in sorted(grouped.items()):
        if key.startswith("frame-write:"):
            frame_searches += 1
            if frame_search_time > frame_search_budget:
                # the interference searches of this run have used their time: the remaining written locations are listed
                # as undecided (a failed frame obligation without a demonstration is never a pass and never a violation)
                undecided.append(dict(name=items[0][0]["name"], reason="frame condition fails; interference search not run (the searches of this run used their %d s)" % frame_search_budget))
                continue
            if frame_searches > 1 and any(not r["known"] for r in reported):
                # further written locations of the same run: one reproduced interference is enough to fail the check
                print("  (frame failure for %s not searched individually: %d instance(s))" % (key[12:][:120], len(items)))
                continue
        ob, res = items[0]
        kf = None
        for k in known:
            if any(fnmatch.fnmatch(o["name"], k["key"]) for o, _ in items):
                kf = k
                break
        all_known = kf is not None and all(any(fnmatch.fnmatch(o["name"], k["key"]) for k in known) for o, _ in items)
        if not all_known:
            # pick an instance that is not covered by a known finding
            for o, r in items:
                if not any(fnmatch.fnmatch(o["name"], k["key"]) for k in known):
                    ob, res = o, r
                    break
        extra = dict(instances=[o["name"] for o, _ in items][:40])
        unit_obj = registry.get(res["unit"])
        redirect = getattr(unit_obj, "replay_redirect", None)
        if redirect is not None:
            try:
                red = redirect(res["case"], tier)
            except Exception as ex:  # the search is best effort
                red = None
                extra["replay_search_error"] = repr(ex)
            if red is not None:
                ob = dict(ob, inputs=red[2])
                res = dict(res, unit=red[0], case=red[1])
                extra["replay_note"] = "the failed obligation is about an abstract state; the input was found by a bounded search of unit %s" % red[0]
            else:
                ob = dict(ob, inputs=None)
        if "/frame:" in ob["name"]:
            extra["custom"] = {"module": "contracts.isolation"}
        path = write_replay(prop, ob, res, extra=extra)
        if ob.get("inputs") is None:
            status, out = 1, "no model could be extracted"
            suffix = " no-failing-input-found"
        else:
            t_rep = time.time()
            status, out = run_replay(path, timeout=900 if "custom" in extra else 60)
            if key.startswith("frame-write:"):
                frame_search_time += time.time() - t_rep
            suffix = ""
            if status == 124 and redirect is None and "custom" not in extra:
                # this instance cannot be replayed in reasonable time: try other instances of the same obligation
                for o2, r2 in [(o, r) for o, r in items if o is not ob and o.get("inputs") is not None][:3]:
                    path2 = write_replay(prop, o2, r2, extra=extra)
                    st2, out2 = run_replay(path2, timeout=30)
                    if st2 in (0, 1):
                        ob, res, path, status, out = o2, r2, path2, st2, out2
                        break
        doc = json.load(open(path))
        doc["replay_output"] = out
        doc["replay_reproduced"] = (status == 1)
        json.dump(doc, open(path, "w"), indent=1, default=str)
        if status == 124:
            undecided.append(dict(name=ob["name"], reason="obligation failed, but its counterexample could not be replayed natively within the time limit"))
            continue
        if status not in (0, 1):
            errors.append("replay of %s crashed: %s" % (ob["name"], out[-1500:]))
            continue
        if status == 0 and "/frame:" in ob["name"]:
            undecided.append(dict(name=ob["name"], reason="frame condition fails (the call writes state that outlives it) but no observable interference between commands was found; not reported as a violation"))
            continue
        if status == 0 and redirect is None:
            # the representative instance does not reproduce: other instances of the same obligation may (e.g. when the
            # code under test keeps state between calls and the symbolic run of one case saw what another left behind)
            for o2, r2 in [(o, r) for o, r in items if o is not ob and o.get("inputs") is not None][:3]:
                path2 = write_replay(prop, o2, r2, extra=extra)
                st2, out2 = run_replay(path2, timeout=30)
                if st2 == 1:
                    ob, res, path, status, out = o2, r2, path2, st2, out2
                    break
        if status == 0:
            errors.append("CHECKER-ERROR: counterexample for %s does not reproduce natively (engine or contract bug): %s" % (ob["name"], out[-800:]))
            continue
        if all_known:
            for k in known:
                if any(fnmatch.fnmatch(o["name"], k["key"]) for o, _ in items):
                    k["hit"] = True
            print("KNOWN-FINDING: property=%s %s -- %s (%d instance(s), e.g. %s)" % (prop, kf["key"], kf["text"], len(items), ob["name"]))
            reported.append(dict(obligation=ob["name"], known=True, replay=path))
        else:
            print("VIOLATION property=%s replay=%s%s" % (prop, path, suffix))
            print("  obligation: %s (%d instance(s)); inputs: %s" % (ob["name"], len(items), json.dumps(ob.get("inputs"))[:300]))
            reported.append(dict(obligation=ob["name"], known=False, replay=path))
            exit_code = 1
    for k in known:
        if not k["hit"]:
            print("STALE-FINDING: property=%s %s no longer fails" % (prop, k["key"]))
    if post is not None:
        # property-specific additional decisions over the aggregated results (e.g. frame diffs for C09)
        extra_code, extra_notes = post(dict(frame_diffs=frame_diffs, per_unit=per_unit, known=known, prop=prop))
        notes.extend(extra_notes)
        exit_code = max(exit_code, extra_code)
    for u in undecided[:40]:
        print("UNDECIDED property=%s obligation=%s reason=%s" % (prop, u["name"], u["reason"]))
    for e in errors[:20]:
        print("CHECKER-ERROR property=%s %s" % (prop, e))
    if canaries and canaries_refuted < canaries and not reported:
        errors.append("only %d of %d canaries refuted" % (canaries_refuted, canaries))
    if obligations == 0:
        errors.append("zero obligations generated (vacuous run)")
        print("CHECKER-ERROR property=%s zero obligations" % prop)
    if errors and exit_code != 1:
        exit_code = 3
    elif errors:
        # a violation that was replayed on the real code stands whatever else went wrong in the run; the checker
        # errors are still printed (typical cause: the code under test now keeps state between calls, so that some
        # counter-models depend on what an earlier case left behind in the worker and do not replay in a fresh process)
        notes.append("checker errors besides confirmed violations: %d" % len(errors))
    elif undecided and exit_code == 0:
        exit_code = 2
    n_known = sum(1 for r in reported if r["known"])
    n_viol = sum(1 for r in reported if not r["known"])
    level = "proof"
    explanation = None
    if bounded_units or known or exit_code != 0 or discharged != obligations:
        level = "other"
        explanation = ("contract-based deductive verification (same machinery as a proof-level check: VCs from the real source, z3/cvc5, "
                       "native replay); reported as 'other' because this property is not a clean proof on this tree: %d bounded unit(s), "
                       "%d recorded known finding(s) (%d obligations fail and are listed in known_findings.txt), %d unlisted violation(s), "
                       "%d undecided, %d checker error(s); every other obligation is discharged"
                       % (len(bounded_units), len(known), obligations - discharged - len(undecided), n_viol, len(undecided), len(errors)))
    ev = dict(
        property_id=prop, tier=tier, seed=seed, level=level,
        coverage=dict(
            obligations=obligations, discharged=discharged,
            checker_cmd="./check %s --tier %s" % (prop, tier),
            trusted_base=TRUSTED_BASE,
            backends=backends, solver_time_s=round(solver_time, 2), paths=paths, units=len(units), cases=len(jobs),
            canaries=canaries, canaries_refuted=canaries_refuted, native_witnesses_cross_checked=witnesses,
            functions_under_contract=sorted(functions), functions_interpreted=sorted(interpreted),
            per_unit=per_unit, bounded_units=bounded_units, samples=samples or [dict(note="all obligations ground")],
            known_findings=[r for r in reported if r["known"]], violations_reported=[r for r in reported if not r["known"]],
            undecided=undecided[:50], checker_errors=errors[:20], notes=sorted(set(notes))[:30], tree=tree_id(),
            exhaustive=False,
        ),
        assumptions=GENERAL_ASSUMPTIONS + sorted({a for u in units for a in getattr(u, "assumptions", ())}),
        wall_s=round(time.time() - t0, 2), violations=n_viol,
    )
    if explanation:
        ev["coverage"]["explanation"] = explanation
    if extra_evidence:
        ev["coverage"].update(extra_evidence)
    os.makedirs(os.path.join(OUT, "evidence"), exist_ok=True)
    with open(os.path.join(OUT, "evidence", prop + ".json"), "w") as f:
        json.dump(ev, f, indent=1, default=str)
    if not quiet:
        print("%s tier=%s: %d obligations, %d discharged (%s), %d paths, %d cases, solver %.1fs, wall %.1fs, canaries %d/%d, witnesses %d -> exit %d" % (
            prop, tier, obligations, discharged, ", ".join("%s:%d" % kv for kv in sorted(backends.items())), paths, len(jobs),
            solver_time, time.time() - t0, canaries_refuted, canaries, witnesses, exit_code))
    return exit_code

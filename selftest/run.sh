#!/bin/bash
# ./check selftest  ->  selftest/run.sh [refactors|seeds|all]
# Runs the checks against scratch copies of /repo (never /repo itself): every stored seeded change must make the
# named check exit 1, every behaviour-preserving refactoring must leave the named checks at exit 0.
# Scratch copies live under /var/tmp and are removed as soon as they are done with.
cd "$(dirname "$0")/.."
what=${1:-all}
fail=0
# the checks run from a snapshot of this directory, so that the self-test is not disturbed by edits made meanwhile
snap=$(mktemp -d /var/tmp/pyscsi-selftest-verif.XXXXXX)
tar -c --exclude=./.git --exclude=./replays --exclude=./evidence --exclude='./seeded/*/check_*' . | tar -x -C $snap
here=$PWD
trap "rm -rf $snap" EXIT
run_on_copy() { # <patch> <expected exit> <props...>
  patch=$1; want=$2; shift 2
  tmp=$(mktemp -d /var/tmp/pyscsi-selftest.XXXXXX)
  mkdir -p $tmp/repo; (cd /repo && git archive HEAD) | tar -x -C $tmp/repo
  if ! (cd $tmp/repo && patch -p1 -s < $patch); then echo "SELFTEST-ERROR patch does not apply: $patch"; rm -rf $tmp; fail=1; return; fi
  if ! (cd $tmp/repo && /venv/bin/python -m pytest -q -p no:cacheprovider >/dev/null 2>&1); then echo "SELFTEST-ERROR test suite fails with $patch"; fail=1; fi
  for p in "$@"; do
    (cd $snap && PYSCSI_REPO=$tmp/repo VERIF_OUT_DIR=$tmp/out ./check $p --tier quick > $tmp/log_$p.txt 2>&1); got=$?
    label=$(basename $patch .patch); [ "$label" = patch.diff ] && label=$(basename $(dirname $patch))
    if [ "$got" = "$want" ]; then echo "ok   $label $p exit=$got"; else echo "FAIL $label $p exit=$got (wanted $want)"; (grep -E "^CHECKER-ERROR" $tmp/log_$p.txt; grep -E "^(UNDECIDED|VIOLATION)" $tmp/log_$p.txt) | cut -c1-400 | head -6; fail=1; fi
  done
  rm -rf $tmp
}
if [ "$what" = refactors ] || [ "$what" = all ]; then
  for f in selftest/refactors/*.patch; do run_on_copy $PWD/$f 0 $(cat ${f%.patch}.props); done
fi
if [ "$what" = seeds ] || [ "$what" = all ]; then
  for d in seeded/*/; do
    props=$(python3 -c "import json,sys; m=json.load(open('$d/meta.json')); print(' '.join(p for p,c in m['checks'].items() if c['exit']==1))")
    run_on_copy $PWD/$d/patch.diff 1 $props
  done
fi
exit $fail

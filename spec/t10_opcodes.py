# spec.t10_opcodes -- operation codes, service actions and status codes as assigned by T10.
#
# Independent transcription (T10 "SCSI Operation Codes" numeric list op-num, SPC-4 annex, SBC-3, SSC-4,
# SMC-3, MMC-6, SCC-2, SAM-5 section 5.3.1).  Nothing here is read from the library.  Keys are the T10
# command names normalised the way identifiers are usually written: upper case, blanks and punctuation
# replaced by '_', "(n)" written as "_n".

# --- operation codes --------------------------------------------------------------------------------------
OPCODES = {
    # SPC (all device types)
    "TEST_UNIT_READY": 0x00,
    "REQUEST_SENSE": 0x03,
    "INQUIRY": 0x12,
    "MODE_SELECT_6": 0x15,
    "RESERVE_6": 0x16,
    "RELEASE_6": 0x17,
    "MODE_SENSE_6": 0x1A,
    "RECEIVE_DIAGNOSTIC_RESULTS": 0x1C,
    "SEND_DIAGNOSTIC": 0x1D,
    "PREVENT_ALLOW_MEDIUM_REMOVAL": 0x1E,
    "WRITE_BUFFER": 0x3B,
    "READ_BUFFER_10": 0x3C,
    "LOG_SELECT": 0x4C,
    "LOG_SENSE": 0x4D,
    "MODE_SELECT_10": 0x55,
    "RESERVE_10": 0x56,
    "RELEASE_10": 0x57,
    "MODE_SENSE_10": 0x5A,
    "PERSISTENT_RESERVE_IN": 0x5E,
    "PERSISTENT_RESERVE_OUT": 0x5F,
    "EXTENDED_COPY": 0x83,
    "RECEIVE_COPY_RESULTS": 0x84,
    "ACCESS_CONTROL_IN": 0x86,
    "ACCESS_CONTROL_OUT": 0x87,
    "READ_ATTRIBUTE": 0x8C,
    "WRITE_ATTRIBUTE": 0x8D,
    "READ_BUFFER_16": 0x9B,
    "REPORT_LUNS": 0xA0,
    "SECURITY_PROTOCOL_IN": 0xA2,
    "MAINTENANCE_IN": 0xA3,
    "MAINTENANCE_OUT": 0xA4,
    "READ_MEDIA_SERIAL_NUMBER": 0xAB,
    "SECURITY_PROTOCOL_OUT": 0xB5,
    # SBC (direct access block devices)
    "FORMAT_UNIT": 0x04,
    "REASSIGN_BLOCKS": 0x07,
    "READ_6": 0x08,
    "WRITE_6": 0x0A,
    "START_STOP_UNIT": 0x1B,
    "READ_CAPACITY_10": 0x25,
    "READ_10": 0x28,
    "WRITE_10": 0x2A,
    "WRITE_AND_VERIFY_10": 0x2E,
    "VERIFY_10": 0x2F,
    "PRE_FETCH_10": 0x34,
    "SYNCHRONIZE_CACHE_10": 0x35,
    "READ_DEFECT_DATA_10": 0x37,
    "READ_LONG_10": 0x3E,
    "WRITE_LONG_10": 0x3F,
    "WRITE_SAME_10": 0x41,
    "UNMAP": 0x42,
    "XDWRITE_10": 0x50,
    "XPWRITE_10": 0x51,
    "XDREAD_10": 0x52,
    "XDWRITEREAD_10": 0x53,
    "ATA_PASS_THROUGH_16": 0x85,
    "READ_16": 0x88,
    "COMPARE_AND_WRITE": 0x89,
    "WRITE_16": 0x8A,
    "ORWRITE_16": 0x8B,
    "WRITE_AND_VERIFY_16": 0x8E,
    "VERIFY_16": 0x8F,
    "PRE_FETCH_16": 0x90,
    "SYNCHRONIZE_CACHE_16": 0x91,
    "WRITE_SAME_16": 0x93,
    "READ_LONG_16": 0x9E,  # SERVICE ACTION IN(16) / 11h
    "WRITE_LONG_16": 0x9F,  # SERVICE ACTION OUT(16) / 11h
    "ATA_PASS_THROUGH_12": 0xA1,
    "READ_12": 0xA8,
    "WRITE_12": 0xAA,
    "WRITE_AND_VERIFY_12": 0xAE,
    "VERIFY_12": 0xAF,
    "READ_DEFECT_DATA_12": 0xB7,
    "REDUNDANCY_GROUP_IN": 0xBA,
    "REDUNDANCY_GROUP_OUT": 0xBB,
    "SPARE_IN": 0xBC,
    "SPARE_OUT": 0xBD,
    "VOLUME_SET_IN": 0xBE,
    "VOLUME_SET_OUT": 0xBF,
    # SSC (sequential access)
    "REWIND": 0x01,
    "FORMAT_MEDIUM": 0x04,
    "READ_BLOCK_LIMITS": 0x05,
    "SET_CAPACITY": 0x0B,
    "READ_REVERSE_6": 0x0F,
    "WRITE_FILEMARKS_6": 0x10,
    "SPACE_6": 0x11,
    "VERIFY_6": 0x13,
    "RECOVER_BUFFERED_DATA": 0x14,
    "LOAD_UNLOAD": 0x1B,
    "READ_POSITION": 0x34,
    "REPORT_DENSITY_SUPPORT": 0x44,
    "WRITE_FILEMARKS_16": 0x80,
    "READ_REVERSE_16": 0x81,
    "SPACE_16": 0x91,
    "LOCATE_16": 0x92,
    "ERASE_16": 0x93,
    "REPORT_ALIAS": 0xA3,  # MAINTENANCE IN / 0Bh (REPORT ALIASES)
    "MOVE_MEDIUM_ATTACHED": 0xA7,
    "READ_ELEMENT_STATUS_ATTACHED": 0xB4,
    # SMC (media changers)
    "INITIALIZE_ELEMENT_STATUS": 0x07,
    "OPEN_CLOSE_IMPORT_EXPORT_ELEMENT": 0x1B,
    "POSITION_TO_ELEMENT": 0x2B,
    "INITIALIZE_ELEMENT_STATUS_WITH_RANGE": 0x37,
    "REPORT_VOLUME_TYPES_SUPPORTED": 0x44,
    "MOVE_MEDIUM": 0xA5,
    "EXCHANGE_MEDIUM": 0xA6,
    "REQUEST_VOLUME_ELEMENT_ADDRESS": 0xB5,
    "SEND_VOLUME_TAG": 0xB6,
    "READ_ELEMENT_STATUS": 0xB8,
    # MMC (CD/DVD/BD)
    "READ_FORMAT_CAPACITIES": 0x23,
    "READ_CAPACITY": 0x25,
    "SEEK_10": 0x2B,
    "SYNCHRONIZE_CACHE": 0x35,
    "READ_TOC_PMA_ATIP": 0x43,
    "GET_CONFIGURATION": 0x46,
    "GET_EVENT_STATUS_NOTIFICATION": 0x4A,
    "READ_DISC_INFORMATION": 0x51,
    "READ_TRACK_INFORMATION": 0x52,
    "RESERVE_TRACK": 0x53,
    "SEND_OPC_INFORMATION": 0x54,
    "REPAIR_TRACK": 0x58,
    "CLOSE_TRACK_SESSION": 0x5B,
    "READ_BUFFER_CAPACITY": 0x5C,
    "SEND_CUE_SHEET": 0x5D,
    "BLANK": 0xA1,
    "SEND_KEY": 0xA3,
    "REPORT_KEY": 0xA4,
    "LOAD_UNLOAD_MEDIUM": 0xA6,
    "SET_READ_AHEAD": 0xA7,
    "GET_PERFORMANCE": 0xAC,
    "READ_DISC_STRUCTURE": 0xAD,
    "SET_STREAMING": 0xB6,
    "READ_CD_MSF": 0xB9,
    "SET_CD_SPEED": 0xBB,
    "MECHANISM_STATUS": 0xBD,
    "READ_CD": 0xBE,
    "SEND_DISC_STRUCTURE": 0xBF,
}

# names of the form <SET>_OPCODE_<HH>: generic handles for service-action opcodes; value must be 0xHH
GENERIC_OPCODE_NAME = r"^(SPC|SBC|SSC|SMC|MMC)_OPCODE_([0-9A-F]{2})$"

# --- service actions --------------------------------------------------------------------------------------
# keyed by operation code, then by service action name
SERVICE_ACTIONS = {
    0x5E: {"READ_KEYS": 0x00, "READ_RESERVATION": 0x01, "REPORT_CAPABILITIES": 0x02, "READ_FULL_STATUS": 0x03},
    0x5F: {"REGISTER": 0x00, "RESERVE": 0x01, "RELEASE": 0x02, "CLEAR": 0x03, "PREEMPT": 0x04,
           "PREEMPT_AND_ABORT": 0x05, "REGISTER_AND_IGNORE_EXISTING_KEY": 0x06, "REGISTER_AND_MOVE": 0x07,
           "REPLACE_LOST_RESERVATION": 0x08, "REPLACE_LOST_REGISTRATION": 0x08},
    0x9E: {"READ_CAPACITY_16": 0x10, "READ_LONG_16": 0x11, "GET_LBA_STATUS": 0x12, "REPORT_REFERRALS": 0x13},
    0x9F: {"WRITE_LONG_16": 0x11},
    0xA3: {"REPORT_IDENTIFYING_INFORMATION": 0x05, "REPORT_DEVICE_IDENTIFIER": 0x05,
           "REQUEST_DATA_TRANSFER_ELEMENT_INQUIRY": 0x06,
           "REPORT_TARGET_PORT_GROUPS": 0x0A, "REPORT_ALIASES": 0x0B, "REPORT_ALIAS": 0x0B,
           "REPORT_SUPPORTED_OPERATION_CODES": 0x0C, "REPORT_SUPPORTED_TASK_MANAGEMENT_FUNCTIONS": 0x0D,
           "REPORT_PRIORITY": 0x0E, "REPORT_TIMESTAMP": 0x0F, "MANAGEMENT_PROTOCOL_IN": 0x10},
    0xA4: {"SET_IDENTIFYING_INFORMATION": 0x06, "SET_DEVICE_IDENTIFIER": 0x06, "SET_TARGET_PORT_GROUPS": 0x0A,
           "CHANGE_ALIASES": 0x0B, "SET_PRIORITY": 0x0E, "SET_TIMESTAMP": 0x0F, "MANAGEMENT_PROTOCOL_OUT": 0x10},
    0xAB: {"READ_MEDIA_SERIAL_NUMBER": 0x01},
    0x7F: {"XDREAD_32": 0x0003, "XDWRITE_32": 0x0004, "XPWRITE_32": 0x0006, "XDWRITEREAD_32": 0x0007,
           "READ_32": 0x0009, "VERIFY_32": 0x000A, "WRITE_32": 0x000B, "WRITE_AND_VERIFY_32": 0x000C,
           "WRITE_SAME_32": 0x000D, "ORWRITE_32": 0x000E},
    0x83: {"EXTENDED_COPY_LID1": 0x00, "EXTENDED_COPY_LID4": 0x01},
    0x1B: {"OPEN_IMPORTEXPORT_ELEMENT": 0x00, "CLOSE_IMPORTEXPORT_ELEMENT": 0x01},  # SMC-3 action codes
}

# SCC-2 MAINTENANCE IN / OUT service actions (storage array controllers).  Transcribed from memory of
# SCC-2 tables 3 and 4; confidence lower than for the rest of this file.
SCC2_MAINTENANCE_IN = {
    "REPORT_ASSIGNED_UNASSIGNED_P_EXTENT": 0x00, "REPORT_COMPONENT_DEVICE": 0x01,
    "REPORT_COMPONENT_DEVICE_ATTACHMENTS": 0x02, "REPORT_PERIPHERAL_DEVICE": 0x03,
    "REPORT_PERIPHERAL_DEVICE_ASSOCIATIONS": 0x04, "REPORT_PERIPHERAL_DEVICE_COMPONENT_DEVICE_IDENTIFIER": 0x05,
    "REPORT_STATES": 0x06, "REPORT_DEVICE_IDENTIFICATION": 0x07, "REPORT_UNCONFIGURED_CAPACITY": 0x08,
    "REPORT_SUPPORTED_CONFIGURATION_METHOD": 0x09,
}
SCC2_MAINTENANCE_OUT = {
    "ADD_PERIPHERAL_DEVICE_COMPONENT_DEVICE": 0x00, "ATTACH_TO_COMPONENT_DEVICE": 0x01, "EXCHANGE_P_EXTENT": 0x02,
    "EXCHANGE_PERIPHERAL_DEVICE_COMPONENT_DEVICE": 0x03, "INSTRUCT_COMPONENT_DEVICE": 0x04,
    "REMOVE_PERIPHERAL_DEVICE_COMPONENT_DEVICE": 0x05, "SET_PERIPHERAL_DEVICE_COMPONENT_DEVICE_IDENTIFIER": 0x06,
    "BREAK_PERIPHERAL_DEVICE_COMPONENT_DEVICE": 0x07,
}


def service_action_value(opcode, name):
    """T10 value of service action `name` under operation code `opcode`; None if the reference does not know it"""
    for table in (SERVICE_ACTIONS.get(opcode, {}),
                  SCC2_MAINTENANCE_IN if opcode == 0xA3 else {},
                  SCC2_MAINTENANCE_OUT if opcode == 0xA4 else {}):
        if name in table:
            return table[name]
    return None


def any_service_action_value(name):
    """value of a service-action name irrespective of the opcode (the library keeps one merged dictionary for
    7Fh/9Eh/A3h/A4h/1Bh); returns the set of values T10 gives that name under any operation code"""
    vals = set()
    for table in list(SERVICE_ACTIONS.values()) + [SCC2_MAINTENANCE_IN, SCC2_MAINTENANCE_OUT]:
        if name in table:
            vals.add(table[name])
    return vals


# --- status codes (SAM-5 table 42) ---------------------------------------------------------------------------
STATUS = {
    "GOOD": 0x00,
    "CHECK_CONDITION": 0x02,
    "CONDITION_MET": 0x04,
    "CONDITIONS_MET": 0x04,  # spelling used by some initiators
    "BUSY": 0x08,
    "RESERVATION_CONFLICT": 0x18,
    "TASK_SET_FULL": 0x28,
    "ACA_ACTIVE": 0x30,
    "TASK_ABORTED": 0x40,
}
# names that are not SCSI status codes but pseudo-statuses of a host transport (not covered by the property)
NON_STANDARD_STATUS = {"SGIO_ERROR"}


# --- CDB length by group code (SAM-5 5.2, SPC-4 4.2.5.1) -----------------------------------------------------
def cdb_length(opcode):
    """fixed CDB length for an operation code, or None for variable-length (7Fh), reserved (60h-7Eh) and
    vendor-specific (C0h-FFh) group codes"""
    if not 0 <= opcode <= 0xFF:
        return None
    group = opcode >> 5
    return {0: 6, 1: 10, 2: 10, 4: 16, 5: 12}.get(group)

# spec.data_formats -- response and parameter data formats of SPC-4 / SBC-3 / SMC-3 / MMC-6, in the standards'
# notation (DESIGN.md appendix B).  Keys are the names the library exposes in its result dictionaries (the
# vocabulary); positions and widths are the standards'.  Never imports pyscsi.
from .formats import F, B, N, Blob, Fmt, put_be

# ------------------------------------------------------------------------------------------------ INQUIRY
STANDARD_INQUIRY = Fmt("standard INQUIRY data", 96, {
    "peripheral_qualifier": B(0, 7, 5), "peripheral_device_type": B(0, 4, 0),
    "rmb": B(1, 7), "version": N(2, 1),
    "normaca": B(3, 5), "hisup": B(3, 4), "response_data_format": B(3, 3, 0),
    "additional_length": N(4, 1),
    "sccs": B(5, 7), "acc": B(5, 6), "tpgs": B(5, 5, 4), "3pc": B(5, 3), "protect": B(5, 0),
    "encserv": B(6, 6), "vs": B(6, 5), "multip": B(6, 4), "addr16": B(6, 0),
    "wbus16": B(7, 5), "sync": B(7, 4), "cmdque": B(7, 1), "vs2": B(7, 0),
    "t10_vendor_identification": Blob(8, 8), "product_identification": Blob(16, 16), "product_revision_level": Blob(32, 4),
    "clocking": B(56, 3, 2), "qas": B(56, 1), "ius": B(56, 0),
})

_VPD_HDR = {"peripheral_qualifier": B(0, 7, 5), "peripheral_device_type": B(0, 4, 0), "page_code": N(1, 1)}


def vpd(name, page_code, size, fields):
    """a VPD page of fixed size: header (qualifier/type, PAGE CODE, PAGE LENGTH = size - 4) + fields"""
    d = dict(_VPD_HDR)
    d.update(fields)
    fmt = Fmt(name, size, d, const={N(2, 2): size - 4})
    fmt.page_code = page_code
    return fmt


VPD_BLOCK_LIMITS = vpd("Block Limits VPD page", 0xB0, 64, {
    "wsnz": B(4, 0), "max_caw_len": N(5, 1), "opt_xfer_len_gran": N(6, 2), "max_xfer_len": N(8, 4),
    "opt_xfer_len": N(12, 4), "max_pfetch_len": N(16, 4), "max_unmap_lba_count": N(20, 4),
    "max_unmap_bd_count": N(24, 4), "opt_unmap_gran": N(28, 4),
    "ugavalid": B(32, 7), "unmap_gran_alignment": F(32, 4, 30, 0), "max_ws_len": N(36, 8),
})
VPD_BLOCK_DEVICE_CHARACTERISTICS = vpd("Block Device Characteristics VPD page", 0xB1, 64, {
    "medium_rotation_rate": N(4, 2), "product_type": N(6, 1), "wabereq": B(7, 7, 6), "wacereq": B(7, 5, 4),
    "nominal_form_factor": B(7, 3, 0), "fuab": B(8, 1), "vbuls": B(8, 0),
})
VPD_LOGICAL_BLOCK_PROVISIONING = vpd("Logical Block Provisioning VPD page", 0xB2, 8, {
    "threshold_exponent": N(4, 1), "lbpu": B(5, 7), "lpbws": B(5, 6), "lbpws10": B(5, 5), "lbprz": B(5, 2),
    "anc_sup": B(5, 1), "dp": B(5, 0), "provisioning_type": B(6, 2, 0),
})
VPD_REFERRALS = vpd("Referrals VPD page", 0xB3, 16, {
    "user_data_segment_size": N(8, 4), "user_data_segment_multiplier": N(12, 4),
})
VPD_EXTENDED_INQUIRY = vpd("Extended INQUIRY Data VPD page", 0x86, 64, {
    "activate_microcode": B(4, 7, 6), "spt": B(4, 5, 3), "grd_chk": B(4, 2), "app_chk": B(4, 1), "ref_chk": B(4, 0),
    "uask_sup": B(5, 5), "group_sup": B(5, 4), "prior_sup": B(5, 3), "headsup": B(5, 2), "ordsup": B(5, 1), "simpsup": B(5, 0),
    "wu_sup": B(6, 3), "crd_sup": B(6, 2), "nv_sup": B(6, 1), "v_sup": B(6, 0),
    "p_i_i_sup": B(7, 4), "luiclr": B(7, 0), "r_sup": B(8, 4), "cbcs": B(8, 0),
    "multi_it_nexus_microcode_download": B(9, 3, 0), "extended_self_test_completion_minutes": N(10, 2),
    "poa_sup": B(12, 7), "hra_sup": B(12, 6), "vsa_sup": B(12, 5), "maximum_supported_sense_data_length": N(13, 1),
})
FIXED_VPD_PAGES = [VPD_BLOCK_LIMITS, VPD_BLOCK_DEVICE_CHARACTERISTICS, VPD_LOGICAL_BLOCK_PROVISIONING, VPD_REFERRALS, VPD_EXTENDED_INQUIRY]

# ------------------------------------------------------------------------------------------------ READ CAPACITY
READ_CAPACITY_10 = Fmt("READ CAPACITY(10) data", 8, {"returned_lba": N(0, 4), "block_length": N(4, 4)})
READ_CAPACITY_16 = Fmt("READ CAPACITY(16) data", 32, {
    "returned_lba": N(0, 8), "block_length": N(8, 4), "p_type": B(12, 3, 1), "prot_en": B(12, 0),
    "p_i_exponent": B(13, 7, 4), "lbppbe": B(13, 3, 0), "lbpme": B(14, 7), "lbprz": B(14, 6),
    "lowest_aligned_lba": F(14, 2, 13, 0),
})

# ------------------------------------------------------------------------------------------------ PERSISTENT RESERVE IN
PRIN_READ_RESERVATION = Fmt("PR IN READ RESERVATION data (one reservation)", 24, {
    "pr_generation": N(0, 4), "reservation_key": N(8, 8), "scope": B(21, 7, 4), "type": B(21, 3, 0),
}, const={N(4, 4): 0x10})
PRIN_READ_RESERVATION_NONE = Fmt("PR IN READ RESERVATION data (no reservation)", 8, {"pr_generation": N(0, 4)}, const={N(4, 4): 0})
PRIN_REPORT_CAPABILITIES = Fmt("PR IN REPORT CAPABILITIES data", 8, {
    "rlr_c": B(2, 7), "crh": B(2, 4), "sip_c": B(2, 3), "atp_c": B(2, 2), "ptpl_c": B(2, 0),
    "tmv": B(3, 7), "allow_commands": B(3, 6, 4), "ptpl_a": B(3, 0),
    "pr_type_mask.wr_ex_ar": B(4, 7), "pr_type_mask.ex_ac_ro": B(4, 6), "pr_type_mask.wr_ex_ro": B(4, 5),
    "pr_type_mask.ex_ac": B(4, 3), "pr_type_mask.wr_ex": B(4, 1), "pr_type_mask.ex_ac_ar": B(5, 0),
}, const={N(0, 2): 8})

# ------------------------------------------------------------------------------------------------ READ DISC INFORMATION
DISC_INFORMATION_STANDARD = Fmt("READ DISC INFORMATION, standard disc information", 34, {
    "disc_information_length": N(0, 2),
    "disc_information_data_type": B(2, 7, 5), "erasable": B(2, 4), "state_of_last_session": B(2, 3, 2), "disc_status": B(2, 1, 0),
    "number_of_first_track_on_disc": N(3, 1),
    "number_of_sessions.lsb": N(4, 1), "first_track_number_in_last_session.lsb": N(5, 1), "last_track_number_in_last_session.lsb": N(6, 1),
    "did_v": B(7, 7), "dbc_v": B(7, 6), "uru": B(7, 5), "dac_v": B(7, 4), "legacy": B(7, 2), "bg_format_status": B(7, 1, 0),
    "disc_type": N(8, 1),
    "number_of_sessions.msb": N(9, 1), "first_track_number_in_last_session.msb": N(10, 1), "last_track_number_in_last_session.msb": N(11, 1),
    "disc_identification": N(12, 4),
    "last_session_lead_in_start_address": Blob(16, 4), "last_possible_lead_out_start_address": Blob(20, 4),
    "disc_bar_code": Blob(24, 8), "disc_application_code": N(32, 1), "number_of_opc_tables": N(33, 1),
})
DISC_INFORMATION_TRACK_RESOURCES = Fmt("READ DISC INFORMATION, track resources", 12, {
    "disc_information_length": N(0, 2), "disc_information_data_type": B(2, 7, 5),
    "maximum_possible_number_of_the_tracks": N(4, 2), "number_of_the_assigned_tracks": N(6, 2),
    "maximum_possible_number_of_appendable_tracks": N(8, 2), "current_number_of_appendable_tracks": N(10, 2),
})
DISC_INFORMATION_POW_RESOURCES = Fmt("READ DISC INFORMATION, POW resources", 16, {
    "disc_information_length": N(0, 2), "disc_information_data_type": B(2, 7, 5),
    "remaining_pow_replacements": N(4, 4), "remaining_pow_reallocation_map_entries": N(8, 4),
    "number_of_remaining_pow_updates": N(12, 4),
})

# ------------------------------------------------------------------------------------------------ list formats
GET_LBA_STATUS_DESCRIPTOR = Fmt("LBA status descriptor", 16, {"lba": N(0, 8), "num_blocks": N(8, 4), "p_status": B(12, 3, 0)})
REPORT_LUNS_ENTRY = Fmt("LUN", 8, {"lun": N(0, 8)})
PRIN_KEY = Fmt("reservation key", 8, {"key": N(0, 8)})
REPORT_PRIORITY_DESCRIPTOR_HEAD = Fmt("priority descriptor (fixed part)", 8, {"current_priority": B(0, 3, 0), "rtpi": N(2, 2), "adlen": N(6, 2)})
RTPG_GROUP_DESCRIPTOR = Fmt("target port group descriptor", 8, {
    "pref": B(0, 7), "asymmetric_access_state": B(0, 3, 0),
    "t_sup": B(1, 7), "o_sup": B(1, 6), "u_sup": B(1, 3), "s_sup": B(1, 2), "an_sup": B(1, 1), "ao_sup": B(1, 0),
    "target_port_group": N(2, 2), "status_code": N(5, 1), "vendor": N(6, 1), "target_port_count": N(7, 1),
})
RTPG_PORT_DESCRIPTOR = Fmt("target port descriptor", 4, {"relative_target_port_id": N(2, 2)})
RTPG_EXT_HEADER = Fmt("RTPG extended header", 4, {"format_type": B(0, 6, 4), "implicit_transition_time": N(1, 1)})
PRIN_FULL_STATUS_DESCRIPTOR_HEAD = Fmt("full status descriptor (fixed part)", 24, {
    "reservation_key": N(0, 8), "all_tg_pt": B(12, 1), "r_holder": B(12, 0), "scope": B(13, 7, 4), "type": B(13, 3, 0),
    "relative_target_port_id": N(18, 2),
})
RES_HEADER = Fmt("element status data header", 8, {"first_element_address": N(0, 2), "num_elements": N(2, 2)})
RES_PAGE_HEADER = Fmt("element status page header", 8, {"element_type": N(0, 1), "pvoltag": B(1, 7), "avoltag": B(1, 6)})
RES_DESCRIPTOR_COMMON = {
    "element_address": N(0, 2), "except": B(2, 2), "full": B(2, 0),
    "additional_sense_code": N(4, 1), "additional_sense_code_qualifier": N(5, 1),
    "svalid": B(9, 7), "invert": B(9, 6), "ed": B(9, 3), "medium_type": B(9, 2, 0), "source_storage_element_address": N(10, 2),
}
RES_DESCRIPTOR = {
    1: Fmt("medium transport element descriptor", 12, dict(RES_DESCRIPTOR_COMMON)),
    2: Fmt("storage element descriptor", 12, dict(RES_DESCRIPTOR_COMMON, access=B(2, 3))),
    3: Fmt("import/export element descriptor", 12, dict(RES_DESCRIPTOR_COMMON, access=B(2, 3), oir=B(2, 7), cmc=B(2, 6),
                                                        inenab=B(2, 5), exenab=B(2, 4), impexp=B(2, 1))),
    4: Fmt("data transfer element descriptor", 12, dict(RES_DESCRIPTOR_COMMON, access=B(2, 3))),
}


def encode_list(header_size, length_field, length_bias, items, tail=()):
    """header of header_size bytes whose `length_field` (F) holds the number of bytes following the field's end
    adjusted by the format's convention: value = total_length - length_bias"""
    body = []
    for it in items:
        body.extend(it)
    cells = [0] * header_size + body
    length_field.encode(cells, len(cells) - length_bias)
    return cells + list(tail)


# ------------------------------------------------------------------------------------------------ mode parameter lists
MODE_HEADER_6 = Fmt("mode parameter header(6)", 4, {"medium_type": N(1, 1), "device_specific_parameter": N(2, 1)})
MODE_HEADER_10 = Fmt("mode parameter header(10)", 8, {"medium_type": N(2, 1), "device_specific_parameter": N(3, 1), "longlba": B(4, 0)})
# pages: offsets are relative to the start of the page (page header included)
PAGE0_HDR = {"ps": B(0, 7), "spf": B(0, 6), "page_code": B(0, 5, 0)}
SUBPAGE_HDR = dict(PAGE0_HDR, sub_page_code=N(1, 1))
MODE_PAGES = {
    # (page code, subpage code or None): (total page size, fields)
    (0x0A, None): Fmt("Control mode page", 12, dict(PAGE0_HDR, **{
        "tst": B(2, 7, 5), "tmf_only": B(2, 4), "dpicz": B(2, 3), "d_sense": B(2, 2), "gltsd": B(2, 1), "rlec": B(2, 0),
        "queue_algorithm_modifier": B(3, 7, 4), "nuar": B(3, 3), "qerr": B(3, 2, 1),
        "vs": B(4, 7), "rac": B(4, 6), "ua_intlck_ctrl": B(4, 5, 4), "swp": B(4, 3),
        "ato": B(5, 7), "tas": B(5, 6), "atmpe": B(5, 5), "rwwp": B(5, 4), "autoload_mode": B(5, 2, 0),
        "busy_timeout_period": N(8, 2), "extended_self_test_completion_time": N(10, 2)}), const={N(1, 1): 0x0A}),
    (0x0A, 0x01): Fmt("Control Extension mode page", 32, dict(SUBPAGE_HDR, **{
        "tcmos": B(4, 2), "scsip": B(4, 1), "ialuae": B(4, 0), "initial_command_priority": B(5, 3, 0),
        "maximum_sense_data_length": N(6, 1)}), const={N(2, 2): 0x1C}),
    (0x02, None): Fmt("Disconnect-Reconnect mode page", 16, dict(PAGE0_HDR, **{
        "buffer_full_ratio": N(2, 1), "buffer_empty_ratio": N(3, 1), "bus_inactivity_limit": N(4, 2),
        "disconnect_time_limit": N(6, 2), "connect_time_limit": N(8, 2), "maximum_burst_size": N(10, 2),
        "emdp": B(12, 7), "fair_arbitration": B(12, 6, 4), "dimm": B(12, 3), "dtdc": B(12, 2, 0),
        "first_burst_size": N(14, 2)}), const={N(1, 1): 0x0E}),
    (0x1D, None): Fmt("Element Address Assignment mode page", 20, dict(PAGE0_HDR, **{
        "first_medium_transport_element_address": N(2, 2), "num_medium_transport_elements": N(4, 2),
        "first_storage_element_address": N(6, 2), "num_storage_elements": N(8, 2),
        "first_import_element_address": N(10, 2), "num_import_elements": N(12, 2),
        "first_data_transfer_element_address": N(14, 2), "num_data_transfer_elements": N(16, 2)}), const={N(1, 1): 0x12}),
}

# ------------------------------------------------------------------------------------------------ VPD lists
DESIGNATION_HEADER = Fmt("designation descriptor header", 4, {
    "protocol_identifier": B(0, 7, 4), "code_set": B(0, 3, 0), "piv": B(1, 7), "association": B(1, 5, 4),
    "designator_type": B(1, 3, 0), "designator_length": N(3, 1),
})
# designators by DESIGNATOR TYPE: list of (case name, total length, Fmt over the designator bytes)
NAA = {
    2: Fmt("NAA IEEE Extended", 8, {"naa": B(0, 7, 4), "vendor_specific_identifier_a": F(0, 2, 11, 0), "ieee_company_id": N(2, 3),
                                    "vendor_specific_identifier_b": N(5, 3)}),
    3: Fmt("NAA Locally Assigned", 8, {"naa": B(0, 7, 4), "locally_administered_value": F(0, 8, 59, 0)}),
    5: Fmt("NAA IEEE Registered", 8, {"naa": B(0, 7, 4), "ieee_company_id": F(0, 4, 27, 4), "vendor_specific_identifier": F(3, 5, 35, 0)}),
    6: Fmt("NAA IEEE Registered Extended", 16, {"naa": B(0, 7, 4), "ieee_company_id": F(0, 4, 27, 4), "vendor_specific_identifier": F(3, 5, 35, 0),
                                                "vendor_specific_identifier_extension": N(8, 8)}),
}
DESIGNATORS = {
    "vendor-specific": (0, lambda n: Fmt("vendor specific designator", n, {"vendor_specific": Blob(0, n)}), (0, 5)),
    "t10-vendor-id": (1, lambda n: Fmt("T10 vendor ID designator", n, {"t10_vendor_id": Blob(0, 8), "vendor_specific_id": Blob(8, n - 8)}), (8, 12)),
    "eui64-8": (2, lambda n: Fmt("EUI-64 (8 bytes)", 8, {"ieee_company_id": N(0, 3), "vendor_specific_extension_id": Blob(3, 5)}), (8,)),
    "eui64-12": (2, lambda n: Fmt("EUI-64 (12 bytes)", 12, {"ieee_company_id": N(0, 3), "vendor_specific_extension_id": Blob(3, 5), "directory_id": Blob(8, 4)}), (12,)),
    "eui64-16": (2, lambda n: Fmt("EUI-64 (16 bytes)", 16, {"identifier_extension": Blob(0, 8), "ieee_company_id": N(8, 3), "vendor_specific_extension_id": Blob(11, 5)}), (16,)),
    "naa-2": (3, lambda n: NAA[2], (8,)), "naa-3": (3, lambda n: NAA[3], (8,)), "naa-5": (3, lambda n: NAA[5], (8,)), "naa-6": (3, lambda n: NAA[6], (16,)),
    "relative-target-port": (4, lambda n: Fmt("relative target port designator", 4, {"relative_port": N(2, 2)}), (4,)),
    "target-port-group": (5, lambda n: Fmt("target port group designator", 4, {"target_portal_group": N(2, 2)}), (4,)),
    "logical-unit-group": (6, lambda n: Fmt("logical unit group designator", 4, {"logical_unit_group": N(2, 2)}), (4,)),
    "md5": (7, lambda n: Fmt("MD5 logical unit designator", 16, {"md5_logical_identifier": Blob(0, 16)}), (16,)),
    "scsi-name-string": (8, lambda n: Fmt("SCSI name string designator", n, {"scsi_name_string": Blob(0, n)}), (4, 12)),
    # SPC-5 7.7.6.11: PCI EXPRESS ROUTING ID in bytes 0..1, six reserved bytes; DESIGNATOR LENGTH 8
    "pci-express-routing-id": (9, lambda n: Fmt("PCI Express routing ID designator", 8, {"pci_express_routing_id": N(0, 2)}), (8,)),
}
NAA_FIXED = {"naa-2": 2, "naa-3": 3, "naa-5": 5, "naa-6": 6}

# ATA Information VPD page (SAT-3 12.4.2): 572 bytes
ATA_INFORMATION = Fmt("ATA Information VPD page", 572, dict(_VPD_HDR, **{
    "sat_vendor_identification": Blob(8, 8), "sat_product_identification": Blob(16, 16), "sat_product_rev_lvl": Blob(32, 4),
    "signature.raw": Blob(36, 20), "command_code": N(56, 1),
    # IDENTIFY (PACKET) DEVICE data starts at byte 60; word w occupies bytes 60+2w, 61+2w
    "identify.serial_number": Blob(60 + 2 * 10, 20), "identify.firmware_rev": Blob(60 + 2 * 23, 8), "identify.model_number": Blob(60 + 2 * 27, 40),
}), const={N(2, 2): 0x238})
ATA_INFORMATION.page_code = 0x89

# ------------------------------------------------------------------------------------------------ TransportIDs (SPC-4 7.6.4)
TRANSPORT_ID_HEAD = {"tpid_format": B(0, 7, 6), "protocol_id": B(0, 3, 0)}
TRANSPORT_IDS = {
    "fc": Fmt("FCP TransportID", 24, dict(TRANSPORT_ID_HEAD, n_port_name=Blob(8, 8))),
    "1394": Fmt("SBP TransportID", 24, dict(TRANSPORT_ID_HEAD, eui64_name=Blob(8, 8))),
    "rdma": Fmt("SRP TransportID", 24, dict(TRANSPORT_ID_HEAD, initiator_port_identifier=Blob(8, 16))),
    "sas": Fmt("SAS TransportID", 24, dict(TRANSPORT_ID_HEAD, sas_address=Blob(4, 8))),
}
TRANSPORT_PROTOCOL = {"fc": 0x0, "1394": 0x3, "rdma": 0x4, "iscsi": 0x5, "sas": 0x6}


def iscsi_transport_id(name, isid=None):
    """iSCSI TransportID: byte 0 format/protocol, bytes 2-3 ADDITIONAL LENGTH (m-3), then the name: format 00b the
    iSCSI name, format 01b name + ",i,0x" + ISID; NUL-terminated and NUL-padded to a multiple of four"""
    s = name if isid is None else "%s,i,0x%s" % (name, isid)
    raw = list(s.encode("utf-8")) + [0]
    while len(raw) % 4:
        raw.append(0)
    cells = [((0 if isid is None else 1) << 6) | 0x5, 0, 0, 0] + raw
    put_be(cells, 2, 2, len(cells) - 4)
    return cells


# ------------------------------------------------------------------------------------------------ READ CD (MMC-6 6.19)
# sector layouts by EXPECTED SECTOR TYPE; sizes in bytes
CD_SECTOR = {
    1: dict(name="CD-DA", user=2352, sync=False, header=False, subheader=False, edc=0, ecc=False),
    2: dict(name="Mode 1", user=2048, sync=True, header=True, subheader=False, edc=4, ecc=True, zero=8),
    3: dict(name="Mode 2 formless", user=2336, sync=True, header=True, subheader=False, edc=0, ecc=False),
    4: dict(name="Mode 2 Form 1", user=2048, sync=True, header=True, subheader=True, edc=4, ecc=True, zero=0),
    5: dict(name="Mode 2 Form 2", user=2324, sync=True, header=True, subheader=True, edc=4, ecc=False),
}
CD_SECTOR_HEADER = Fmt("CD sector header", 4, {"minute": N(0, 1), "second": N(1, 1), "frame": N(2, 1), "mode": N(3, 1)})
C2_SIZES = {0: 0, 1: 294, 2: 296}
SUBCHANNEL_SIZES = {0: 0, 1: 96, 2: 16, 4: 96}
SUBCHANNEL_Q = Fmt("formatted Q sub-channel", 16, {
    "c": B(0, 7, 4), "adr": B(0, 3, 0), "track-number": N(1, 1), "index-number": N(2, 1), "min": N(3, 1), "sec": N(4, 1), "frame": N(5, 1),
    "zero": N(6, 1), "amin": N(7, 1), "asec": N(8, 1), "aframe": N(9, 1), "crc": N(10, 2), "p": B(15, 7),
})

# ------------------------------------------------------------------------------------------------ PERSISTENT RESERVE OUT (SPC-4 6.14)
PROUT_BASIC = Fmt("PR OUT basic parameter list", 24, {
    "reservation_key": N(0, 8), "service_action_reservation_key": N(8, 8),
    "spec_i_pt": B(20, 3), "all_tg_pt": B(20, 2), "aptpl": B(20, 0),
})
PROUT_REGISTER_AND_MOVE = Fmt("PR OUT REGISTER AND MOVE parameter list (fixed part)", 24, {
    "reservation_key": N(0, 8), "service_action_reservation_key": N(8, 8),
    "unreg": B(17, 1), "aptpl": B(17, 0), "relative_target_port_id": N(18, 2),
})
PROUT_SA = {"REGISTER": 0, "RESERVE": 1, "RELEASE": 2, "CLEAR": 3, "PREEMPT": 4, "PREEMPT_AND_ABORT": 5,
            "REGISTER_AND_IGNORE_EXISTING_KEY": 6, "REGISTER_AND_MOVE": 7}

# ------------------------------------------------------------------------------------------------ EXTENDED COPY (SPC-4 6.3 / 6.4)
XCOPY_LID1_HEADER = Fmt("EXTENDED COPY(LID1) parameter list header", 16, {
    "list_identifier": N(0, 1), "sequential_striped": B(1, 5), "nrcr": B(1, 4), "priority": B(1, 2, 0),
})
XCOPY_LID1_LENGTHS = {"targets": N(2, 2), "segments": N(8, 4), "inline": N(12, 4)}
XCOPY_LID4_HEADER = Fmt("EXTENDED COPY(LID4) parameter list header", 48, {
    "sequential_striped": B(1, 5), "list_id_usage": B(1, 4, 3), "priority": B(1, 2, 0),
    "g_sense": B(15, 1), "immed": B(15, 0), "list_identifier": N(20, 4),
}, const={N(0, 1): 0x01, N(2, 2): 0x0020, N(16, 1): 0xFF})
XCOPY_LID4_LENGTHS = {"targets": N(42, 2), "segments": N(44, 2), "inline": N(46, 2)}
# identification descriptor CSCD / target descriptor (type E4h), 32 bytes
XCOPY_CSCD_E4 = Fmt("identification descriptor CSCD descriptor", 32, {
    "lu_id_type": B(1, 7, 6), "peripheral_device_type": B(1, 4, 0), "relative_initiator_port_identifier": N(2, 2),
    "code_set": B(4, 3, 0), "association": B(5, 5, 4), "designator_type": B(5, 3, 0), "designator_length": N(7, 1),
    "designator": Blob(8, 20),
    "pad": B(28, 2), "fixed": B(28, 0), "block_length": N(29, 3),
}, const={N(0, 1): 0xE4})
XCOPY_BLOCK_TYPES = (0x00, 0x04, 0x05, 0x07, 0x0E)


def xcopy_segment(lid4):
    src, dst = ("source_cscd_descriptor_id", "destination_cscd_descriptor_id") if lid4 else ("source_target_descriptor_id", "destination_target_descriptor_id")
    b2s = lambda name: Fmt(name, 24, {
        "descriptor_type_code": N(0, 1), "cat": B(1, 0), src: N(4, 2), dst: N(6, 2), "stream_device_transfer_length": N(9, 3),
        "block_device_number_of_blocks": N(14, 2), "block_device_logical_block_address": N(16, 8)}, const={N(2, 2): 0x0014})
    b2b_fields = {"descriptor_type_code": N(0, 1), "cat": B(1, 0), "dc": B(1, 1), src: N(4, 2), dst: N(6, 2),
                  "block_device_number_of_blocks": N(10, 2), "source_block_device_logical_block_address": N(12, 8),
                  "destination_block_device_logical_block_address": N(20, 8)}
    if lid4:
        b2b_fields["fco"] = B(1, 2)
    return {
        0x00: b2s("block -> stream segment descriptor"), 0x0B: b2s("block -> stream + application client"),
        0x01: b2s("stream -> block segment descriptor"), 0x0C: b2s("stream -> block + application client"),
        0x02: Fmt("block -> block segment descriptor", 28, dict(b2b_fields), const={N(2, 2): 0x0018}),
        0x0D: Fmt("block -> block + application client", 28, dict(b2b_fields), const={N(2, 2): 0x0018}),
    }


XCOPY_SEGMENT_NAMES = {
    0x00: ("block -> stream", "Copy from block device to stream device"),
    0x01: ("stream -> block", "Copy from stream device to block device"),
    0x02: ("block -> block", "Copy from block device to block device"),
}

# spec.block_target -- an abstract standards-conformant block target (SBC-3): a ghost disk LBA -> block and an
# execute(cdb, dataout, datain) that decodes the CDB with the *standard's* layouts (spec.cdb_layouts) only.
# Polymorphic: LBAs, block contents and flag bits may be pyvc symbolic values; transfer lengths and the block
# size must be concrete here (the per-block loop is executed).  Never imports pyscsi.
from . import cdb_layouts as L

__pyvc_trusted__ = True


class Disk:
    """LBA (64 bit) -> block value (integer of 8*blocksize bits).  Symbolic mode: a z3 array; native: a dict"""

    __pyvc_trusted__ = True

    def __init__(self, blocksize, symbolic, name="disk", seed=0):
        self.bs = blocksize
        self.symbolic = symbolic
        self.seed = seed
        if symbolic:
            import z3

            self.arr = z3.Array(name, z3.BitVecSort(64), z3.BitVecSort(8 * blocksize))
        else:
            self.d = {}

    def _default(self, lba):
        # native initial contents: a deterministic function of the address and the seed
        v = (lba * 0x9E3779B97F4A7C15 + self.seed * 0xD1B54A32D192ED03 + 0x1234567) & ((1 << 64) - 1)
        return v & ((1 << (8 * self.bs)) - 1)

    def get(self, lba):
        if self.symbolic:
            import z3
            from pyvc import values as V

            v = z3.Select(self.arr, z3.Extract(63, 0, V.to_bv(lba)))
            return V.SInt(z3.ZeroExt(V.W - 8 * self.bs, v), 0, (1 << (8 * self.bs)) - 1)
        return self.d.get(lba, self._default(lba))

    def set(self, lba, value):
        if self.symbolic:
            import z3
            from pyvc import values as V

            self.arr = z3.Store(self.arr, z3.Extract(63, 0, V.to_bv(lba)), z3.Extract(8 * self.bs - 1, 0, V.to_bv(value)))
        else:
            self.d[lba] = value


def _blocks_of(buf, n, bs):
    cells = list(buf)
    out = []
    for i in range(n):
        v = 0
        for k in range(bs):
            v = (v << 8) | cells[i * bs + k]
        out.append(v)
    return out


def _fill(buf, offset, value, nbytes):
    for k in range(nbytes):
        buf[offset + k] = (value >> (8 * (nbytes - 1 - k))) & 0xFF


class BlockTarget:
    __pyvc_trusted__ = True

    def __init__(self, blocksize, capacity_blocks, symbolic, seed=0, device_type=0x00):
        self.bs = blocksize
        self.capacity = capacity_blocks
        self.disk = Disk(blocksize, symbolic, seed=seed)
        self.device_type = device_type
        self.log = []

    def execute(self, cdb, dataout, datain):
        op = cdb[0]
        if not isinstance(op, int):
            raise AssertionError("the operation code reaching the target must be concrete")
        for key in ("Read10", "Read12", "Read16"):
            lay = L.CDB[key]
            if op == lay.opcode:
                lba, n = lay.fields["lba"].decode(cdb), lay.fields["tl"].decode(cdb)
                self.log.append(("read", lba, n))
                assert len(datain) == n * self.bs, "initiator's data-in buffer does not match the transfer the CDB announces"
                for i in range(n):
                    _fill(datain, i * self.bs, self.disk.get(lba + i), self.bs)
                return
        for key in ("Write10", "Write12", "Write16"):
            lay = L.CDB[key]
            if op == lay.opcode:
                lba, n = lay.fields["lba"].decode(cdb), lay.fields["tl"].decode(cdb)
                self.log.append(("write", lba, n))
                assert len(dataout) == n * self.bs, "initiator's data-out buffer does not match the transfer the CDB announces"
                for i, v in enumerate(_blocks_of(dataout, n, self.bs)):
                    self.disk.set(lba + i, v)
                return
        for key in ("WriteSame10", "WriteSame16"):
            lay = L.CDB[key]
            if op == lay.opcode:
                lba, n = lay.fields["lba"].decode(cdb), lay.fields["nb"].decode(cdb)
                ndob = lay.fields["ndob"].decode(cdb) if "ndob" in lay.fields else 0
                self.log.append(("write_same", lba, n, ndob))
                if ndob:
                    assert len(dataout) == 0
                    v = 0
                else:
                    assert len(dataout) == self.bs
                    v = _blocks_of(dataout, 1, self.bs)[0]
                for i in range(n):
                    self.disk.set(lba + i, v)
                return
        if op in (L.CDB["SynchronizeCache10"].opcode, L.CDB["SynchronizeCache16"].opcode):
            self.log.append(("sync",))
            return
        if op == L.CDB["ReadCapacity10"].opcode:
            last = self.capacity - 1
            _fill(datain, 0, last if last < 0xFFFFFFFF else 0xFFFFFFFF, 4)
            _fill(datain, 4, self.bs, 4)
            return
        if op == 0x9E and (cdb[1] & 0x1F) == 0x10:
            n = len(datain)
            resp = [0] * 32
            _fill(resp, 0, self.capacity - 1, 8)
            _fill(resp, 8, self.bs, 4)
            for i in range(min(n, 32)):
                datain[i] = resp[i]
            return
        if op == L.CDB["Inquiry"].opcode:
            resp = [0] * 96
            resp[0] = self.device_type & 0x1F
            resp[2] = 0x06  # SPC-4
            resp[3] = 0x02
            resp[4] = 91
            resp[8:16] = list(b"VERIF   ")
            resp[16:32] = list(b"BLOCK TARGET    ")
            resp[32:36] = list(b"0001")
            for i in range(min(len(datain), 96)):
                datain[i] = resp[i]
            return
        raise AssertionError("abstract target: unexpected operation code %02Xh" % op)

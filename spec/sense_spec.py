# spec.sense_spec -- sense data formats of SPC-4 4.5 (independent transcription; polymorphic)
FIXED = (0x70, 0x71)
DESCRIPTOR = (0x72, 0x73)

SENSE_KEYS = {
    0x0: "NO SENSE", 0x1: "RECOVERED ERROR", 0x2: "NOT READY", 0x3: "MEDIUM ERROR", 0x4: "HARDWARE ERROR",
    0x5: "ILLEGAL REQUEST", 0x6: "UNIT ATTENTION", 0x7: "DATA PROTECT", 0x8: "BLANK CHECK", 0x9: "VENDOR SPECIFIC",
    0xA: "COPY ABORTED", 0xB: "ABORTED COMMAND", 0xC: "RESERVED", 0xD: "VOLUME OVERFLOW", 0xE: "MISCOMPARE",
    0xF: "COMPLETED",
}

# reference sample of well-known additional sense codes (T10 ASC/ASCQ list), used for "assigned codes are
# described by their T10 text"
ASC_SAMPLE = {
    (0x00, 0x00): "NO ADDITIONAL SENSE INFORMATION",
    (0x04, 0x01): "LOGICAL UNIT IS IN PROCESS OF BECOMING READY",
    (0x04, 0x02): "LOGICAL UNIT NOT READY, INITIALIZING COMMAND REQUIRED",
    (0x11, 0x00): "UNRECOVERED READ ERROR",
    (0x20, 0x00): "INVALID COMMAND OPERATION CODE",
    (0x21, 0x00): "LOGICAL BLOCK ADDRESS OUT OF RANGE",
    (0x24, 0x00): "INVALID FIELD IN CDB",
    (0x25, 0x00): "LOGICAL UNIT NOT SUPPORTED",
    (0x26, 0x00): "INVALID FIELD IN PARAMETER LIST",
    (0x27, 0x00): "WRITE PROTECTED",
    (0x28, 0x00): "NOT READY TO READY CHANGE, MEDIUM MAY HAVE CHANGED",
    (0x29, 0x00): "POWER ON, RESET, OR BUS DEVICE RESET OCCURRED",
    (0x2A, 0x01): "MODE PARAMETERS CHANGED",
    (0x3A, 0x00): "MEDIUM NOT PRESENT",
    (0x3F, 0x0E): "REPORTED LUNS DATA HAS CHANGED",
    (0x44, 0x00): "INTERNAL TARGET FAILURE",
    (0x47, 0x00): "SCSI PARITY ERROR",
    (0x00, 0x1D): "ATA PASS THROUGH INFORMATION AVAILABLE",
    (0x01, 0x00): "NO INDEX/SECTOR SIGNAL",
    (0x02, 0x00): "NO SEEK COMPLETE",
    (0x03, 0x00): "PERIPHERAL DEVICE WRITE FAULT",
    (0x04, 0x00): "LOGICAL UNIT NOT READY, CAUSE NOT REPORTABLE",
    (0x04, 0x04): "LOGICAL UNIT NOT READY, FORMAT IN PROGRESS",
    (0x08, 0x00): "LOGICAL UNIT COMMUNICATION FAILURE",
    (0x0C, 0x00): "WRITE ERROR",
    (0x10, 0x00): "ID CRC OR ECC ERROR",
    (0x14, 0x00): "RECORDED ENTITY NOT FOUND",
    (0x15, 0x00): "RANDOM POSITIONING ERROR",
    (0x1A, 0x00): "PARAMETER LIST LENGTH ERROR",
    (0x1B, 0x00): "SYNCHRONOUS DATA TRANSFER ERROR",
    (0x2C, 0x00): "COMMAND SEQUENCE ERROR",
    (0x2F, 0x00): "COMMANDS CLEARED BY ANOTHER INITIATOR",
    (0x30, 0x00): "INCOMPATIBLE MEDIUM INSTALLED",
    (0x31, 0x00): "MEDIUM FORMAT CORRUPTED",
    (0x39, 0x00): "SAVING PARAMETERS NOT SUPPORTED",
    (0x3A, 0x01): "MEDIUM NOT PRESENT - TRAY CLOSED",
    (0x3A, 0x02): "MEDIUM NOT PRESENT - TRAY OPEN",
    (0x40, 0x00): "RAM FAILURE (SHOULD USE 40 NN)",
    (0x43, 0x00): "MESSAGE ERROR",
    (0x45, 0x00): "SELECT OR RESELECT FAILURE",
    (0x49, 0x00): "INVALID MESSAGE ERROR",
    (0x4E, 0x00): "OVERLAPPED COMMANDS ATTEMPTED",
    (0x53, 0x00): "MEDIA LOAD OR EJECT FAILED",
    (0x53, 0x02): "MEDIUM REMOVAL PREVENTED",
    (0x55, 0x04): "INSUFFICIENT REGISTRATION RESOURCES",
    (0x5D, 0x00): "FAILURE PREDICTION THRESHOLD EXCEEDED",
}


def is_fixed(response_code):
    return response_code == 0x70 or response_code == 0x71


def is_descriptor(response_code):
    return response_code == 0x72 or response_code == 0x73


def key_asc_ascq(sense):
    """(sense key, asc, ascq) at SPC's positions for the format the response code selects; None for an unknown
    response code or a buffer too short to hold the three values.  `sense` is a sequence of byte cells of known
    length; the response code may be symbolic (the function branches on it)."""
    n = len(sense)
    rc = sense[0] & 0x7F
    if is_fixed(rc):
        if n < 14:
            return None
        return sense[2] & 0x0F, sense[12], sense[13]
    if is_descriptor(rc):
        if n < 4:
            return None
        return sense[1] & 0x0F, sense[2], sense[3]
    return None


def present_key_asc_ascq(sense):
    """as key_asc_ascq, per field: (key, asc, ascq) where a field whose byte lies beyond the end of a truncated buffer
    is None (no value at that position; SPC has the application client treat it as zero).  None for an unknown
    response code."""
    n = len(sense)
    rc = sense[0] & 0x7F
    at = lambda i, mask=0xFF: (sense[i] & mask) if i < n else None
    if is_fixed(rc):
        return at(2, 0x0F), at(12), at(13)
    if is_descriptor(rc):
        return at(1, 0x0F), at(2), at(3)
    return None

# spec.cdb_layouts -- the CDB formats of SPC-4 / SBC-3 / SMC-3 / MMC-6 / SAT-3, in the standards' own notation.
#
# Independent of the library: nothing is read from pyscsi.  Fields are given as "byte n, bits msb..lsb" or as
# big-endian multi-byte fields; everything not listed is reserved and must be zero (the CONTROL byte is not
# modelled by the library except for ATA PASS-THROUGH, so it must be zero).  Field names are the names of the
# library's constructor parameters, because the property is "the argument the caller supplied arrives at the
# position the standard assigns to that field".  Transcribed from DESIGN.md appendix A.
#
# This module is polymorphic: decode() works on lists of ints and on pyvc symbolic cells alike.


class Bits:
    """bits msb..lsb of one byte"""

    def __init__(self, byte, msb, lsb=None):
        self.byte = byte
        self.msb = msb
        self.lsb = msb if lsb is None else lsb

    @property
    def width(self):
        return self.msb - self.lsb + 1

    def positions(self):
        return {(self.byte, b) for b in range(self.lsb, self.msb + 1)}

    def decode(self, cdb):
        return (cdb[self.byte] >> self.lsb) & ((1 << self.width) - 1)

    def describe(self):
        return "byte %d bits %d..%d" % (self.byte, self.msb, self.lsb) if self.width > 1 else "byte %d bit %d" % (self.byte, self.msb)


class BE:
    """big-endian integer in bytes first .. first+n-1"""

    def __init__(self, first, n):
        self.first = first
        self.n = n

    @property
    def width(self):
        return 8 * self.n

    def positions(self):
        return {(self.first + i, b) for i in range(self.n) for b in range(8)}

    def decode(self, cdb):
        v = 0
        for i in range(self.n):
            v = (v << 8) | cdb[self.first + i]
        return v

    def describe(self):
        return "bytes %d..%d" % (self.first, self.first + self.n - 1)


class ByteMap:
    """an integer whose byte k (k = 0 least significant) is carried in CDB byte pos[k] (SAT LBA fields)"""

    def __init__(self, pos):
        self.pos = list(pos)

    @property
    def width(self):
        return 8 * len(self.pos)

    def positions(self):
        return {(p, b) for p in self.pos for b in range(8)}

    def decode(self, cdb):
        v = 0
        for k, p in enumerate(self.pos):
            v = v | (cdb[p] << (8 * k))
        return v

    def describe(self):
        return "LBA byte k in CDB byte %s" % (self.pos,)


class Layout:
    def __init__(self, t10, opcode, length, fields, sa=None, sa_field=None, derived=None, data=None, note=None):
        self.t10 = t10  # T10 command name (key of spec.t10_opcodes.OPCODES), or list of acceptable names
        self.opcode = opcode
        self.length = length
        self.fields = fields  # constructor parameter -> field
        self.sa = sa  # service action value, if the command has one
        self.sa_field = sa_field or (Bits(1, 4, 0) if sa is not None else None)
        self.derived = derived or {}  # fields computed by the library (list lengths): name -> field
        self.data = data or ("none",)
        self.note = note

    def covered(self):
        pos = {(0, b) for b in range(8)}
        for f in list(self.fields.values()) + list(self.derived.values()):
            pos |= f.positions()
        if self.sa_field is not None:
            pos |= self.sa_field.positions()
        return pos

    def reserved_mask(self, byte):
        """bits of `byte` that belong to no field"""
        m = 0xFF
        for (by, b) in self.covered():
            if by == byte:
                m &= ~(1 << b)
        return m & 0xFF

    def check_disjoint(self):
        seen = {}
        items = [("opcode", Bits(0, 7, 0))] + list(self.fields.items()) + list(self.derived.items())
        if self.sa_field is not None:
            items.append(("service_action", self.sa_field))
        for name, f in items:
            for p in f.positions():
                if p in seen:
                    raise AssertionError("spec error: %s and %s overlap in %s" % (name, seen[p], self.t10))
                if not (0 <= p[0] < self.length):
                    raise AssertionError("spec error: %s outside the CDB of %s" % (name, self.t10))
                seen[p] = name


def _rw(op, length, protect):
    """READ / WRITE (10/12/16)"""
    f = {protect: Bits(1, 7, 5), "dpo": Bits(1, 4), "fua": Bits(1, 3)}
    if protect == "rdprotect":
        f["rarc"] = Bits(1, 2)
    if length == 10:
        f.update(lba=BE(2, 4), group=Bits(6, 4, 0), tl=BE(7, 2))
    elif length == 12:
        f.update(lba=BE(2, 4), tl=BE(6, 4), group=Bits(10, 4, 0))
    else:
        f.update(lba=BE(2, 8), tl=BE(10, 4), group=Bits(14, 4, 0))
    return f


_ATA_BYTE2 = dict(off_line=Bits(2, 7, 6), ck_cond=Bits(2, 5), t_type=Bits(2, 4), t_dir=Bits(2, 3),
                  byte_block=Bits(2, 2), t_length=Bits(2, 1, 0))

CDB = {
    "TestUnitReady": Layout("TEST_UNIT_READY", 0x00, 6, {}),
    "Inquiry": Layout("INQUIRY", 0x12, 6, dict(evpd=Bits(1, 0), page_code=BE(2, 1), alloclen=BE(3, 2)),
                      data=("alloc", "alloclen")),
    "ModeSense6": Layout("MODE_SENSE_6", 0x1A, 6, dict(dbd=Bits(1, 3), pc=Bits(2, 7, 6), page_code=Bits(2, 5, 0),
                                                       sub_page_code=BE(3, 1), alloclen=BE(4, 1)),
                         data=("alloc", "alloclen")),
    "ModeSense10": Layout("MODE_SENSE_10", 0x5A, 10, dict(llbaa=Bits(1, 4), dbd=Bits(1, 3), pc=Bits(2, 7, 6),
                                                          page_code=Bits(2, 5, 0), sub_page_code=BE(3, 1),
                                                          alloclen=BE(7, 2)),
                          data=("alloc", "alloclen")),
    "ModeSelect6": Layout("MODE_SELECT_6", 0x15, 6, dict(pf=Bits(1, 4), sp=Bits(1, 0)),
                          derived=dict(parameter_list_length=BE(4, 1)), data=("out_list", "parameter_list_length")),
    "ModeSelect10": Layout("MODE_SELECT_10", 0x55, 10, dict(pf=Bits(1, 4), sp=Bits(1, 0)),
                           derived=dict(parameter_list_length=BE(7, 2)), data=("out_list", "parameter_list_length")),
    "PreventAllowMediumRemoval": Layout("PREVENT_ALLOW_MEDIUM_REMOVAL", 0x1E, 6, dict(prevent=Bits(4, 1, 0))),
    "Read10": Layout("READ_10", 0x28, 10, _rw("r", 10, "rdprotect"), data=("blocks", "blocksize", "tl")),
    "Read12": Layout("READ_12", 0xA8, 12, _rw("r", 12, "rdprotect"), data=("blocks", "blocksize", "tl")),
    "Read16": Layout("READ_16", 0x88, 16, _rw("r", 16, "rdprotect"), data=("blocks", "blocksize", "tl")),
    "Write10": Layout("WRITE_10", 0x2A, 10, _rw("w", 10, "wrprotect"), data=("out_caller", "data")),
    "Write12": Layout("WRITE_12", 0xAA, 12, _rw("w", 12, "wrprotect"), data=("out_caller", "data")),
    "Write16": Layout("WRITE_16", 0x8A, 16, _rw("w", 16, "wrprotect"), data=("out_caller", "data")),
    "WriteSame10": Layout("WRITE_SAME_10", 0x41, 10, dict(wrprotect=Bits(1, 7, 5), anchor=Bits(1, 4), unmap=Bits(1, 3),
                                                          lba=BE(2, 4), group=Bits(6, 4, 0), nb=BE(7, 2)),
                          data=("out_caller", "data")),
    "WriteSame16": Layout("WRITE_SAME_16", 0x93, 16, dict(wrprotect=Bits(1, 7, 5), anchor=Bits(1, 4), unmap=Bits(1, 3),
                                                          ndob=Bits(1, 0), lba=BE(2, 8), nb=BE(10, 4),
                                                          group=Bits(14, 4, 0)),
                          data=("out_caller_ndob", "data", "ndob")),
    "SynchronizeCache10": Layout(["SYNCHRONIZE_CACHE_10", "SYNCHRONIZE_CACHE"], 0x35, 10,
                                 dict(immed=Bits(1, 1), lba=BE(2, 4), group=Bits(6, 4, 0), numblks=BE(7, 2))),
    "SynchronizeCache16": Layout("SYNCHRONIZE_CACHE_16", 0x91, 16,
                                 dict(immed=Bits(1, 1), lba=BE(2, 8), numblks=BE(10, 4), group=Bits(14, 4, 0))),
    "ReadCapacity10": Layout(["READ_CAPACITY_10", "READ_CAPACITY"], 0x25, 10, {}, data=("alloc_nocdb", "alloclen")),
    "ReadCapacity16": Layout("READ_CAPACITY_16", 0x9E, 16, dict(alloclen=BE(10, 4)), sa=0x10,
                             data=("alloc", "alloclen")),
    "GetLBAStatus": Layout("GET_LBA_STATUS", 0x9E, 16, dict(lba=BE(2, 8), alloclen=BE(10, 4)), sa=0x12,
                           data=("alloc", "alloclen")),
    "ReportLuns": Layout("REPORT_LUNS", 0xA0, 12, dict(report=BE(2, 1), alloclen=BE(6, 4)), data=("alloc", "alloclen")),
    "ReportPriority": Layout("REPORT_PRIORITY", 0xA3, 12, dict(priority=Bits(2, 7, 6), alloclen=BE(6, 4)), sa=0x0E,
                             data=("alloc", "alloclen")),
    "ReportTargetPortGroups": Layout("REPORT_TARGET_PORT_GROUPS", 0xA3, 12,
                                     dict(data_format=Bits(1, 7, 5), alloclen=BE(6, 4)), sa=0x0A,
                                     data=("alloc", "alloclen")),
    "PersistentReserveIn": Layout("PERSISTENT_RESERVE_IN", 0x5E, 10, dict(service_action=Bits(1, 4, 0), alloclen=BE(7, 2)),
                                  data=("alloc", "alloclen")),
    "PersistentReserveInReadKeys": Layout("PERSISTENT_RESERVE_IN", 0x5E, 10, dict(alloclen=BE(7, 2)), sa=0x00,
                                          data=("alloc", "alloclen")),
    "PersistentReserveInReadReservation": Layout("PERSISTENT_RESERVE_IN", 0x5E, 10, dict(alloclen=BE(7, 2)), sa=0x01,
                                                 data=("alloc", "alloclen")),
    "PersistentReserveInReportCapabilities": Layout("PERSISTENT_RESERVE_IN", 0x5E, 10, dict(alloclen=BE(7, 2)), sa=0x02,
                                                    data=("alloc", "alloclen")),
    "PersistentReserveInReadFullStatus": Layout("PERSISTENT_RESERVE_IN", 0x5E, 10, dict(alloclen=BE(7, 2)), sa=0x03,
                                                data=("alloc", "alloclen")),
    "PersistentReserveOut": Layout("PERSISTENT_RESERVE_OUT", 0x5F, 10,
                                   dict(service_action=Bits(1, 4, 0), scope=Bits(2, 7, 4), pr_type=Bits(2, 3, 0)),
                                   derived=dict(parameter_list_length=BE(5, 4)),
                                   data=("out_list", "parameter_list_length")),
    "ExtendedCopy4": Layout("EXTENDED_COPY", 0x83, 16, {}, sa=0x00, derived=dict(parameter_list_length=BE(10, 4)),
                            data=("out_list", "parameter_list_length")),
    "ExtendedCopy5": Layout("EXTENDED_COPY", 0x83, 16, {}, sa=0x01, derived=dict(parameter_list_length=BE(10, 4)),
                            data=("out_list", "parameter_list_length")),
    "ATAPassThrough12": Layout("ATA_PASS_THROUGH_12", 0xA1, 12,
                               dict(protocal=Bits(1, 4, 1), fetures=BE(3, 1), count=BE(4, 1), lba=ByteMap([5, 6, 7]),
                                    device=BE(8, 1), command=BE(9, 1), control=BE(11, 1), **_ATA_BYTE2),
                               data=("ata",)),
    "ATAPassThrough16": Layout("ATA_PASS_THROUGH_16", 0x85, 16,
                               dict(extend=Bits(1, 0), protocal=Bits(1, 4, 1), fetures=BE(3, 2), count=BE(5, 2),
                                    lba=ByteMap([8, 10, 12, 7, 9, 11]), device=BE(13, 1), command=BE(14, 1),
                                    control=BE(15, 1), **_ATA_BYTE2),
                               data=("ata",)),
    "ReadCd": Layout("READ_CD", 0xBE, 12, dict(est=Bits(1, 4, 2), dap=Bits(1, 1), lba=BE(2, 4), tl=BE(6, 3),
                                               mcsb=Bits(9, 7, 3), c2ei=Bits(9, 2, 1), scsb=Bits(10, 2, 0)),
                     data=("readcd",)),
    "ReadDiscInformation": Layout("READ_DISC_INFORMATION", 0x51, 10, dict(data_type=Bits(1, 2, 0), alloc_len=BE(7, 2)),
                                  data=("alloc", "alloc_len")),
    "InitializeElementStatus": Layout("INITIALIZE_ELEMENT_STATUS", 0x07, 6, {}),
    "InitializeElementStatusWithRange": Layout("INITIALIZE_ELEMENT_STATUS_WITH_RANGE", 0x37, 10,
                                               dict(fast=Bits(1, 1), rng=Bits(1, 0), xfer=BE(2, 2), elements=BE(6, 2))),
    "MoveMedium": Layout("MOVE_MEDIUM", 0xA5, 12, dict(xfer=BE(2, 2), source=BE(4, 2), dest=BE(6, 2), invert=Bits(10, 0))),
    "ExchangeMedium": Layout("EXCHANGE_MEDIUM", 0xA6, 12, dict(xfer=BE(2, 2), source=BE(4, 2), dest1=BE(6, 2), dest2=BE(8, 2),
                                                               inv2=Bits(10, 1), inv1=Bits(10, 0))),
    "PositionToElement": Layout("POSITION_TO_ELEMENT", 0x2B, 10, dict(xfer=BE(2, 2), dest=BE(4, 2), invert=Bits(8, 0))),
    "OpenCloseImportExportElement": Layout("OPEN_CLOSE_IMPORT_EXPORT_ELEMENT", 0x1B, 6,
                                           dict(xfer=BE(2, 2), acode=Bits(4, 4, 0))),
    "ReadElementStatus": Layout("READ_ELEMENT_STATUS", 0xB8, 12,
                                dict(voltag=Bits(1, 4), element_type=Bits(1, 3, 0), start=BE(2, 2), num=BE(4, 2),
                                     curdata=Bits(6, 1), dvcid=Bits(6, 0), alloclen=BE(7, 3)),
                                data=("alloc", "alloclen")),
}

for _k, _l in CDB.items():
    _l.check_disjoint()


def layout_key(cls):
    """key of CDB for a command class object (the two EXTENDED COPY classes share a class name)"""
    name = cls.__name__
    if name == "ExtendedCopy":
        return "ExtendedCopy4" if cls.__module__.endswith("spc4") else "ExtendedCopy5"
    return name


def t10_names(layout):
    return layout.t10 if isinstance(layout.t10, list) else [layout.t10]


# ------------------------------------------------------------------------------------------------------------
# SAT-3 data phase of ATA PASS-THROUGH: returns (direction, length) with direction 'in' | 'out' | 'none'.
# Polymorphic: arguments may be symbolic; uses Python branching (forks under pyvc).


def ata_transfer(t_length, byte_block, t_type, t_dir, features, count, extra_tl, blocksize):
    if t_length == 0:
        n = 0
    elif t_length == 1:
        n = features
    elif t_length == 2:
        n = count
    else:
        n = extra_tl if extra_tl is not None else 0  # "TPSIU": the library takes the count from the caller
    if t_length == 0:
        unit = 0
    elif not byte_block:
        unit = 1
    elif not t_type:
        unit = 512
    else:
        unit = blocksize
    return ("out" if t_dir == 0 else "in"), n * unit


# READ CD: bytes per sector implied by the CDB (MMC-6 table 351 ff.); used only as a lower bound of the
# data-in buffer the library allocates.
def readcd_max_sector():
    return 2352 + 296 + 96

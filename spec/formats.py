# spec.formats -- notation for response / parameter data formats in the standards' terms, with polymorphic
# encoder and decoder (work on ints and on pyvc symbolic values alike).  Never imports pyscsi.


class F:
    """bits msb..lsb of the big-endian integer over bytes first .. first+nbytes-1 (bit 0 = LSB of the last byte)"""

    kind = "int"

    def __init__(self, first, nbytes, msb, lsb):
        self.first, self.nbytes, self.msb, self.lsb = first, nbytes, msb, lsb

    @property
    def width(self):
        return self.msb - self.lsb + 1

    @property
    def end(self):
        return self.first + self.nbytes

    def positions(self):
        out = set()
        for b in range(self.lsb, self.msb + 1):
            out.add((self.first + self.nbytes - 1 - b // 8, b % 8))
        return out

    def decode(self, cells):
        v = 0
        for i in range(self.nbytes):
            v = (v << 8) | cells[self.first + i]
        return (v >> self.lsb) & ((1 << self.width) - 1)

    def encode(self, cells, value):
        x = value << self.lsb
        for i in range(self.nbytes):
            cells[self.first + i] = cells[self.first + i] | ((x >> (8 * (self.nbytes - 1 - i))) & 0xFF)

    def describe(self):
        if self.nbytes == 1:
            return "byte %d bits %d..%d" % (self.first, self.msb, self.lsb)
        if self.lsb == 0 and self.msb == 8 * self.nbytes - 1:
            return "bytes %d..%d" % (self.first, self.end - 1)
        return "bits %d..%d of bytes %d..%d" % (self.msb, self.lsb, self.first, self.end - 1)


def B(byte, msb, lsb=None):
    return F(byte, 1, msb, msb if lsb is None else lsb)


def N(first, nbytes):
    return F(first, nbytes, 8 * nbytes - 1, 0)


class Blob:
    """nbytes raw bytes at offset off"""

    kind = "bytes"

    def __init__(self, off, nbytes):
        self.first, self.nbytes = off, nbytes

    @property
    def end(self):
        return self.first + self.nbytes

    @property
    def width(self):
        return 8 * self.nbytes

    def positions(self):
        return {(self.first + i, b) for i in range(self.nbytes) for b in range(8)}

    def decode(self, cells):
        return list(cells[self.first:self.first + self.nbytes])

    def encode(self, cells, value):
        v = list(value)
        assert len(v) == self.nbytes, "blob length"
        cells[self.first:self.first + self.nbytes] = v

    def describe(self):
        return "bytes %d..%d (raw)" % (self.first, self.end - 1)


class Fmt:
    """a fixed-size structure: named fields at fixed positions, everything else reserved / zero"""

    def __init__(self, name, size, fields, const=None):
        self.name = name
        self.size = size
        self.fields = fields  # library key -> F | Blob
        self.const = const or {}  # F -> constant value (page codes, lengths ...)
        seen = {}
        for k, f in list(fields.items()) + [("const", f) for f in self.const]:
            assert f.end <= size, "spec error: %s.%s beyond the structure" % (name, k)
            for p in f.positions():
                assert p not in seen, "spec error: %s: %s overlaps %s" % (name, k, seen[p])
                seen[p] = k

    def encode(self, vals, size=None):
        cells = [0] * (size or self.size)
        for f, c in self.const.items():
            f.encode(cells, c)
        for k, f in self.fields.items():
            if k in vals:
                f.encode(cells, vals[k])
        return cells

    def decode(self, cells):
        return {k: f.decode(cells) for k, f in self.fields.items()}

    def keys(self):
        return list(self.fields.keys())


def put_be(cells, off, nbytes, value):
    for i in range(nbytes):
        cells[off + i] = (value >> (8 * (nbytes - 1 - i))) & 0xFF

# spec -- independent oracle: T10 code assignments, CDB layouts, data formats (never imports pyscsi)

# stub of the cython-iscsi binding (libiscsi).  Assumed contract:
#   Context(initiator_name) / URL(context, url) construct handles; URL has .target .portal .lun;
#   Context.connect(portal, lun) opens the session; disconnect() closes it;
#   Context.command(lun, task, dataout, datain) sends task.cdb, sets task.status to the status byte the target
#   reported and, for CHECK CONDITION, task.raw_sense to the sense bytes; may overwrite datain in place.
WORLD = None

SCSI_XFER_NONE = 0
SCSI_XFER_READ = 1
SCSI_XFER_WRITE = 2
ISCSI_SESSION_DISCOVERY = 1
ISCSI_SESSION_NORMAL = 2
ISCSI_HEADER_DIGEST_NONE = 0
ISCSI_HEADER_DIGEST_NONE_CRC32C = 1
ISCSI_HEADER_DIGEST_CRC32C_NONE = 2
ISCSI_HEADER_DIGEST_CRC32C = 3


class Task:
    __pyvc_trusted__ = True

    def __init__(self, cdb, dir, xferlen):
        self.cdb = cdb
        self.dir = dir
        self.xferlen = xferlen
        WORLD.trace.append(("iscsi.Task", self, cdb, dir, xferlen))


class URL:
    __pyvc_trusted__ = True

    def __init__(self, context, url):
        self.context = context
        self.url = url
        self.target = ("target-of", url)
        self.portal = ("portal-of", url)
        self.lun = ("lun-of", url)
        WORLD.trace.append(("iscsi.URL", self, context, url))


class Context:
    __pyvc_trusted__ = True

    def __init__(self, initiator_name):
        self.initiator_name = initiator_name
        WORLD.trace.append(("iscsi.Context", self, initiator_name))

    def set_targetname(self, name):
        WORLD.trace.append(("iscsi.set_targetname", self, name))

    def set_session_type(self, t):
        WORLD.trace.append(("iscsi.set_session_type", self, t))

    def set_header_digest(self, d):
        WORLD.trace.append(("iscsi.set_header_digest", self, d))

    def connect(self, portal, lun):
        WORLD.trace.append(("iscsi.connect", self, portal, lun))

    def disconnect(self):
        WORLD.trace.append(("iscsi.disconnect", self))

    def command(self, lun, task, dataout, datain):
        return WORLD.iscsi_command(self, lun, task, dataout, datain)

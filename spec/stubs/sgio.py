# stub of the cython-sgio binding.  Assumed contract of sgio.execute(file, cdb, dataout, datain):
#   returns normally  iff the target reported GOOD (the return value is None or a residual byte count: unspecified);
#   raises CheckConditionError(sense) iff it reported CHECK CONDITION (sense = the sense bytes it sent);
#   raises some other exception (here: OSError) for every other status or transport failure;
#   may overwrite the contents of datain in place; touches nothing else;
#   takes the descriptor with file.fileno(): a closed file is refused with ValueError and nothing is sent.
WORLD = None


class CheckConditionError(Exception):
    def __init__(self, sense):
        Exception.__init__(self, "check condition")
        self.sense = sense


class UnspecifiedError(Exception):
    pass


def execute(file, cdb, dataout, datain):
    return WORLD.sgio_execute(file, cdb, dataout, datain)


execute.__pyvc_trusted__ = True

# the ghost world behind the stubs: a file system (path -> current inode, or absent), open handles, the status
# and sense the target will report, and the trace of everything the library did to the outside.
from types import SimpleNamespace

__pyvc_trusted__ = True


class FakeFile:
    __pyvc_trusted__ = True

    def __init__(self, world, path, mode, buffering, ino):
        self.world = world
        self.path = path
        self.mode = mode
        self.buffering = buffering
        self.ino = ino  # the inode the path had when this handle was opened
        self.close_calls = 0  # releases of the OS handle (close() on a closed file is a no-op, as for io objects)
        self.closed = False

    def close(self):
        if self.closed:
            self.world.trace.append(("close-again", self))
            return
        self.closed = True  # the descriptor is released even when close() reports an error
        self.close_calls += 1
        self.world.trace.append(("close", self))
        if self.world.close_fails(self):
            raise OSError("close failed")

    def fileno(self):
        if self.closed:
            raise ValueError("I/O operation on closed file")
        return 1000 + self.world.handles.index(self)

    def __repr__(self):
        return "<handle %s opened on inode %r>" % (self.path, self.ino)


class World:
    __pyvc_trusted__ = True

    def __init__(self):
        self.trace = []
        self.present = {}  # path -> bool | symbolic bool
        self.inode = {}  # path -> int | symbolic int
        self.status = 0  # status byte the target reports for the next command
        self.sense = None  # sense bytes it sends with CHECK CONDITION
        self.close_failure = False  # bool | symbolic: closing a handle raises
        self.resid = None  # return value of sgio.execute for GOOD status (None, or the residual byte count of the transfer)
        self.open_failure = False  # bool | symbolic: open() of an existing node raises (EACCES, EBUSY, ...)
        self.havoc = None  # callable(datain) -> None: the device writes into the data-in buffer
        self.handles = []
        self.link_inode = {}  # path -> inode of the symbolic link itself, for paths that are symbolic links to the node
        self.created = []  # paths that open() created because they did not exist (regular files, never device nodes)
        self.all_present = False  # every path names an existing node (used where the file system is not the subject)

    # ---- operating system
    def open(self, path, mode="r", buffering=-1):
        if not isinstance(path, str):
            # a symbolic path (dispatch contracts, C19): the file system is not modelled, the node exists
            h = FakeFile(self, path, mode, buffering, 0)
            self.handles.append(h)
            self.trace.append(("open", path, mode, buffering, h))
            return h
        if not self.present.get(path, self.all_present):
            if not any(c in mode for c in "wax"):
                self.trace.append(("open-failed", path, mode, buffering))
                raise FileNotFoundError(2, "No such file or directory", path)
            # "w" / "a" / "x" modes CREATE a missing path: an empty regular file, not a device node
            self.created.append(path)
            self.present[path] = True
            self.inode[path] = 900001 + len(self.created)
            self.trace.append(("created", path, mode))
        if bool(self.open_failure):
            self.trace.append(("open-failed", path, mode, buffering))
            raise PermissionError(13, "Permission denied", path)
        h = FakeFile(self, path, mode, buffering, self.inode.get(path, 0))
        self.handles.append(h)
        self.trace.append(("open", path, mode, buffering, h))
        return h

    def stat(self, path):
        self.trace.append(("stat", path))
        if not isinstance(path, str):
            return SimpleNamespace(st_ino=0)
        if not self.present.get(path, self.all_present):
            raise FileNotFoundError(2, "No such file or directory", path)
        return SimpleNamespace(st_ino=self.inode.get(path, 0))

    def lstat(self, path):
        """like stat, but a symbolic link is not followed: its own inode is reported (it exists even when dangling)"""
        self.trace.append(("lstat", path))
        if isinstance(path, str) and path in self.link_inode:
            return SimpleNamespace(st_ino=self.link_inode[path])
        return self.stat(path)

    def close_fails(self, handle):
        return bool(self.close_failure)

    # ---- SG_IO
    def sgio_execute(self, file, cdb, dataout, datain):
        if getattr(file, "closed", False):
            # assumed contract of the binding: it takes file.fileno(), which refuses a closed file; nothing is sent
            self.trace.append(("sgio.execute-on-closed-file", file))
            raise ValueError("I/O operation on closed file")
        cur = self.inode.get(getattr(file, "path", None))
        self.trace.append(("sgio.execute", file, cdb, dataout, datain, cur))
        from . import sgio

        if self.havoc is not None:
            self.havoc(datain)
        if self.status == 0x00:
            return self.resid  # what the binding returns for a completed command is not specified: None, or a residual count
        if self.status == 0x02:
            raise sgio.CheckConditionError(self.sense)
        raise sgio.UnspecifiedError("status", self.status)

    # ---- iSCSI
    def iscsi_command(self, context, lun, task, dataout, datain):
        self.trace.append(("iscsi.command", context, lun, task, dataout, datain))
        if self.havoc is not None:
            self.havoc(datain)
        task.status = self.status
        if self.status == 0x02 and self.sense is not None:
            task.raw_sense = self.sense  # a binding that has no sense to offer leaves the attribute unset

    def events(self, kind):
        return [t for t in self.trace if t[0] == kind]

# spec.stubs -- stand-ins for the external C bindings (cython-sgio, cython-iscsi) and for the operating system
# as seen by the device classes.  They implement the *assumed contracts* of those externals (DESIGN.md section
# 8) over a ghost world object, record every call in a trace, and run natively on concrete and symbolic values.
import sys

__pyvc_trusted__ = True


def install():
    """make `import sgio` / `import iscsi` resolve to the stubs (must run before pyscsi's device modules are
    imported); idempotent"""
    from . import sgio, iscsi

    sys.modules.setdefault("sgio", sgio)
    sys.modules.setdefault("iscsi", iscsi)
    return sgio, iscsi

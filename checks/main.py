# entry point of every registered check
import argparse
import importlib
import os
import sys

VERIF = os.path.dirname(os.path.dirname(os.path.abspath(__file__)))
sys.path.insert(0, VERIF)
sys.path.insert(0, os.environ.get("PYSCSI_REPO", "/repo"))
sys.setrecursionlimit(20000)


def main():
    ap = argparse.ArgumentParser()
    ap.add_argument("prop")
    ap.add_argument("--tier", default=os.environ.get("VERIF_TIER", "quick"), choices=["quick", "thorough"])
    ap.add_argument("--replay")
    ap.add_argument("--unit", default=None, help="fnmatch pattern restricting the units (debugging; evidence is still written)")
    ap.add_argument("--nproc", type=int, default=None)
    a = ap.parse_args()
    if a.prop == "selftest":
        import subprocess

        return subprocess.call([os.path.join(VERIF, "selftest", "run.sh")] + ([a.unit] if a.unit else []))
    seed = int(os.environ.get("VERIF_SEED", "0") or 0)
    from pyvc import runner

    if a.replay:
        code, out = runner.run_replay(a.replay)
        print(out)
        if code == 1:
            print("VIOLATION property=%s replay=%s" % (a.prop, a.replay))
        return code
    modname = "checks." + a.prop.lower()
    try:
        mod = importlib.import_module(modname)
    except ModuleNotFoundError as ex:
        if ex.name != modname:
            raise
        mod = None
    if mod is not None and hasattr(mod, "main"):
        return mod.main(a.tier, seed, a)
    return runner.run_property(a.prop, a.tier, seed, unit_filter=a.unit, nproc=a.nproc)


if __name__ == "__main__":
    try:
        code = main()
    except SystemExit:
        raise
    except BaseException:
        import traceback

        traceback.print_exc()
        print("CHECKER-ERROR uncaught exception in the check driver")
        code = 3
    sys.stdout.flush()
    os._exit(code)

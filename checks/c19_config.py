# one binding configuration, executed natively in its own process: which of the external bindings exist is decided
# before anything of pyscsi is imported.  Prints one JSON document: [[item, ok, detail], ...]
import importlib
import json
import os
import pkgutil
import sys

VERIF = os.path.dirname(os.path.dirname(os.path.abspath(__file__)))
REPO = os.environ.get("PYSCSI_REPO", "/repo")
sys.path.insert(0, VERIF)
sys.path.insert(0, REPO)


def main(have):
    # "sgio" / "iscsi": usable; "sgio!absent": no such module anywhere (ModuleNotFoundError); "sgio!broken": installed but
    # not loadable (the import raises a plain ImportError, e.g. a shared library it needs is missing); default: None in
    # sys.modules.  All but the first mean: the binding is missing.
    spec = [x for x in have.split(",") if x]
    have = set(x for x in spec if "!" not in x)
    how = dict(x.split("!") for x in spec if "!" in x)
    from spec.stubs import sgio as stub_sgio, iscsi as stub_iscsi
    from spec.stubs.world import World
    import tempfile

    broken_dir = None
    for name, stub in (("sgio", stub_sgio), ("iscsi", stub_iscsi)):
        if name in have:
            sys.modules[name] = stub
        elif how.get(name) == "absent":
            sys.modules.pop(name, None)
            try:
                importlib.import_module(name)
                raise SystemExit("a real %s binding is installed in this interpreter: the 'absent' configuration cannot be set up" % name)
            except ImportError:
                pass
        elif how.get(name) == "broken":
            sys.modules.pop(name, None)
            if broken_dir is None:
                import atexit
                import shutil

                broken_dir = tempfile.mkdtemp(prefix="c19-broken-")
                atexit.register(shutil.rmtree, broken_dir, True)  # nothing is left behind under /tmp
            with open(os.path.join(broken_dir, name + ".py"), "w") as fh:
                fh.write("raise ImportError('lib%s.so.1: cannot open shared object file: No such file or directory')\n" % name)
            sys.path.insert(0, broken_dir)
        else:
            sys.modules[name] = None  # `import name` raises ImportError: the binding is not installed
    out = []
    import pyscsi

    mods = []
    for m in pkgutil.walk_packages(pyscsi.__path__, "pyscsi."):
        try:
            importlib.import_module(m.name)
            out.append(["import:" + m.name, True, ""])
            mods.append(m.name)
        except BaseException as ex:
            out.append(["import:" + m.name, False, "%s: %s" % (type(ex).__name__, ex)])
    out.append(["modules-found", len(mods) > 40, str(len(mods))])
    import pyscsi.pyscsi.scsi_device as sd
    import pyscsi.pyiscsi.iscsi_device as idv

    out.append(["flag:_has_sgio", sd._has_sgio == ("sgio" in have), repr(sd._has_sgio)])
    out.append(["flag:_has_iscsi", idv._has_iscsi == ("iscsi" in have), repr(idv._has_iscsi)])
    # every command builds, encodes and decodes; the facade works over a recording device (contracts run natively)
    import contracts

    for m in ("converter", "cdb_commands", "cdb_codec", "facade", "dataout"):
        importlib.import_module("contracts." + m)
    from pyvc.unit import REGISTRY, run_native

    for name, unit in sorted(REGISTRY.items()):
        if not name.startswith(("ctor/", "codec/", "facade/", "dataout/")):
            continue
        cases = unit.cases("quick")
        for case in cases[:2]:
            decls = unit.inputs(case)
            inp = {}
            for k, d in decls.items():
                n = getattr(d, "n", None)
                inp[k] = [0] * n if n is not None else (1 if k == "blocksize" else getattr(d, "lo", 0))
            try:
                o, clauses, _ = run_native(unit, case, inp)
                bad = [n for p, n, ok in (clauses or []) if not ok and p in ("C01", "C02", "C13", "C05")]
                known = [b for b in bad if "inv1" in b or "inv2" in b]  # recorded EXCHANGE MEDIUM finding
                bad = [b for b in bad if b not in known]
                out.append(["works:%s[%s]" % (name, unit.case_id(case)), not bad, "; ".join(bad[:3])])
            except BaseException as ex:
                out.append(["works:%s[%s]" % (name, unit.case_id(case)), False, "%s: %s" % (type(ex).__name__, ex)])
    # the facade works over ANY device object: a user-written transport that has nothing but what the facade documents
    # (opcodes, devicetype, execute), answers a few commands and reports a failure through its OWN exception class
    try:
        from pyscsi.pyscsi.scsi import SCSI
        from pyscsi.pyscsi import scsi_enum_command as EC

        class TransportBusy(Exception):
            pass

        class UserTransport:
            def __init__(self, fail_on=()):
                self.opcodes = EC.spc
                self.devicetype = 0
                self.seen = []
                self.fail_on = fail_on

            def execute(self, cmd, en_raw_sense=False):
                self.seen.append(bytes(cmd.cdb))
                if cmd.cdb[0] in self.fail_on:
                    raise TransportBusy("busy")
                if cmd.cdb[0] == 0x25:
                    cmd.datain[:8] = bytes([0, 0, 0xFF, 0xFF, 0, 0, 2, 0])

        t = UserTransport()
        s = SCSI(t)
        s.blocksize = 512
        r = s.readcapacity10().result
        s.testunitready()
        out.append(["facade-over-a-user-transport:commands-work", r == {"returned_lba": 0xFFFF, "block_length": 512} and
                    [c[0] for c in t.seen] == [0x12, 0x25, 0x00], "%r %r" % (r, [c.hex() for c in t.seen])])
        for op, call in ((0x00, lambda f: f.testunitready()), (0x25, lambda f: f.readcapacity10()), (0x12, lambda f: f.inquiry())):
            t = UserTransport(fail_on=(op,))
            t.opcodes = EC.sbc
            try:
                f = SCSI.__new__(SCSI)
                f.device = t
                f._blocksize = 512
                call(f)
                res = "returned"
            except TransportBusy:
                res = "TransportBusy"
            except BaseException as ex:
                res = type(ex).__name__
            out.append(["facade-over-a-user-transport:its-own-error-propagates:%02Xh" % op, res == "TransportBusy", res])
    except BaseException as ex:
        out.append(["facade-over-a-user-transport", False, "%s: %s" % (type(ex).__name__, ex)])
    # asking for a transport: refused iff its binding is missing, before anything is opened
    w = World()
    stub_sgio.WORLD = w
    stub_iscsi.WORLD = w
    import builtins
    import pyscsi.utils as U

    opened = []
    real_open = builtins.open
    w.present["/dev/sg0"] = True
    w.inode["/dev/sg0"] = 1
    sd.open = lambda *a, **k: (opened.append(a), w.open(*a, **k))[1]
    from contracts.device import FakeOS

    w.all_present = True
    sd.os = FakeOS(w)
    for dev, binding, clsname in (("/dev/sg0", "sgio", "SCSIDevice"), ("/dev/bsg/0:0:0:0", "sgio", "SCSIDevice"), ("/dev/disk/by-id/wwn-0x5000", "sgio", "SCSIDevice"),
                                  ("/dev/", "sgio", "SCSIDevice"), ("iscsi://127.0.0.1/iqn.t/0", "iscsi", "ISCSIDevice"), ("iscsi://", "iscsi", "ISCSIDevice"),
                                  ("iscsi://Host.Example:3260/iqn.2001-04.COM.Example:Target-A/1", "iscsi", "ISCSIDevice"), ("/dev/disk/by-label/Data Disk", "sgio", "SCSIDevice"),
                                  ("iscsi://admin%password@10.0.0.5/iqn.2001-04.com.example:t/1", "iscsi", "ISCSIDevice"), ("iscsi://backup%s3cret@h/t/0", "iscsi", "ISCSIDevice"),
                                  ("/dev/disk/by-id/usb-Flash%20Disk_1%d-0:0", "sgio", "SCSIDevice"), ("100%", None, None), ("%s", None, None), ("tcp://%(x)s", None, None),
                                  ("/tmp/file", None, None), ("tcp://x", None, None), ("nbd://[fd00::10", None, None), ("//[", None, None), ("smb://[fileserver]/share", None, None),
                                  ("iscsi://backup%s3cr]t@192.0.2.10:3260/iqn.2003-01.org.example:disk1/0", "iscsi", "ISCSIDevice"), ("iscsi://[::1]:3260/iqn.t/0", "iscsi", "ISCSIDevice"), ("", None, None), ("/dev", None, None), ("dev/sg0", None, None),
                                  ("ISCSI://x", None, None), (" /dev/sg0", None, None)):
        del w.trace[:]
        try:
            d = U.init_device(dev)
            res = ("return", type(d).__name__)
        except NotImplementedError:
            res = ("raise", "NotImplementedError")
        except BaseException as ex:
            res = ("raise", type(ex).__name__)
        touched = [t[0] for t in w.trace if t[0] in ("open", "iscsi.Context", "iscsi.connect", "iscsi.URL")]
        if binding is not None and binding in have:
            ok = res == ("return", clsname) and len(touched) >= 1
            # the path / url reaches the operating system / the binding exactly as requested
            for t in w.trace:
                if t[0] == "open" and t[1] != dev:
                    ok = False
                if t[0] == "iscsi.URL" and t[3] != dev:
                    ok = False
        else:
            ok = res == ("raise", "NotImplementedError") and not touched
        out.append(["init_device:%s" % dev, ok, "%s %s" % (res, touched)])
    if broken_dir:
        import shutil

        shutil.rmtree(broken_dir, ignore_errors=True)
    print("C19JSON" + json.dumps(out))


if __name__ == "__main__":
    main(sys.argv[1] if len(sys.argv) > 1 else "")
